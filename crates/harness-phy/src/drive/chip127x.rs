//! SX1276/7/8/9 and SX1272/73 register-level model (LoRa mode registers only). Addresses and bit
//! layouts are transcribed from the datasheets (SX1276-7-8-9 rev 7 table 41, SX1272/73 rev 4
//! table 85) — deliberately NOT from lora-phy's enums.
//!
//! SPI protocol (datasheet 4.3): first byte = wnr bit (1 = write) + 7-bit address; then data
//! bytes with address auto-increment (burst), except address 0 (FIFO) which stays 0 and moves the
//! 8-bit FifoAddrPtr instead — the pointer wraps from 255 to 0.

use super::{Air, AirKind, ChipModel, Held};

pub const REG_FIFO: u8 = 0x00;
pub const REG_OP_MODE: u8 = 0x01;
pub const REG_FRF_MSB: u8 = 0x06;
pub const REG_FRF_MID: u8 = 0x07;
pub const REG_FRF_LSB: u8 = 0x08;
pub const REG_PA_CONFIG: u8 = 0x09;
pub const REG_PA_RAMP: u8 = 0x0A;
pub const REG_OCP: u8 = 0x0B;
pub const REG_LNA: u8 = 0x0C;
pub const REG_FIFO_ADDR_PTR: u8 = 0x0D;
pub const REG_FIFO_TX_BASE_ADDR: u8 = 0x0E;
pub const REG_FIFO_RX_BASE_ADDR: u8 = 0x0F;
pub const REG_FIFO_RX_CURRENT_ADDR: u8 = 0x10;
pub const REG_IRQ_FLAGS_MASK: u8 = 0x11;
pub const REG_IRQ_FLAGS: u8 = 0x12;
pub const REG_RX_NB_BYTES: u8 = 0x13;
pub const REG_MODEM_STAT: u8 = 0x18;
pub const REG_PKT_SNR_VALUE: u8 = 0x19;
pub const REG_PKT_RSSI_VALUE: u8 = 0x1A;
pub const REG_RSSI_VALUE: u8 = 0x1B;
pub const REG_MODEM_CONFIG1: u8 = 0x1D;
pub const REG_MODEM_CONFIG2: u8 = 0x1E;
pub const REG_SYMB_TIMEOUT_LSB: u8 = 0x1F;
pub const REG_PREAMBLE_MSB: u8 = 0x20;
pub const REG_PREAMBLE_LSB: u8 = 0x21;
pub const REG_PAYLOAD_LENGTH: u8 = 0x22;
pub const REG_MODEM_CONFIG3: u8 = 0x26; // SX1276 only
pub const REG_DETECT_OPTIMIZE: u8 = 0x31;
pub const REG_VERSION: u8 = 0x42;
pub const REG_PA_DAC_SX1276: u8 = 0x4D;
pub const REG_PA_DAC_SX1272: u8 = 0x5A;

// RegIrqFlags bits
pub const IRQ_RX_TIMEOUT: u8 = 0x80;
pub const IRQ_RX_DONE: u8 = 0x40;
pub const IRQ_PAYLOAD_CRC_ERROR: u8 = 0x20;
pub const IRQ_VALID_HEADER: u8 = 0x10;
pub const IRQ_TX_DONE: u8 = 0x08;
pub const IRQ_CAD_DONE: u8 = 0x04;

#[derive(Debug, Clone, Copy, PartialEq, Eq)]
pub enum Kind {
    Sx1276,
    Sx1272,
}

pub struct Chip127x {
    pub kind: Kind,
    pub regs: [u8; 128],
    pub fifo: [u8; 256],
    /// IRQ flags latched when RegOpMode selects RXSINGLE/RXCONTINUOUS resp. TX
    pub irq_on_rx: u8,
    pub irq_on_tx: u8,
    pub writes: u64,
    pub exchanges: u64,
    /// (start pointer, count) of the last FIFO read burst
    pub last_fifo_read: Option<(u8, usize)>,
    /// bit set per register address written since the last `clear_written`
    pub written: [bool; 128],
    /// bit set per register address written since the last power-on / NRESET (registers keep their
    /// values in sleep mode, datasheet 4.1.6 / table 15; only a reset restores the defaults)
    pub since_por: [bool; 128],
    pub power_ons: u32,
    /// held configuration at the most recent RegOpMode write selecting TX, RXCONTINUOUS, RXSINGLE or CAD
    pub air: Option<Air>,
    pub air_count: u64,
}

fn reset_regs(kind: Kind) -> [u8; 128] {
    let mut regs = [0u8; 128];
    // reset values (datasheet register tables)
    regs[REG_OP_MODE as usize] = 0x09;
    regs[REG_FRF_MSB as usize] = 0x6C;
    regs[REG_FRF_MID as usize] = 0x80;
    regs[REG_PA_CONFIG as usize] = 0x4F;
    regs[REG_PA_RAMP as usize] = 0x09;
    regs[REG_OCP as usize] = 0x2B;
    regs[REG_LNA as usize] = 0x20;
    regs[REG_FIFO_TX_BASE_ADDR as usize] = 0x80;
    regs[REG_MODEM_CONFIG2 as usize] = 0x70;
    regs[REG_SYMB_TIMEOUT_LSB as usize] = 0x64;
    regs[REG_PREAMBLE_LSB as usize] = 0x08;
    regs[REG_PAYLOAD_LENGTH as usize] = 0x01;
    regs[REG_DETECT_OPTIMIZE as usize] = 0xC3;
    match kind {
        Kind::Sx1276 => {
            regs[REG_MODEM_CONFIG1 as usize] = 0x72;
            regs[REG_MODEM_CONFIG3 as usize] = 0x00;
            regs[REG_VERSION as usize] = 0x12;
            regs[REG_PA_DAC_SX1276 as usize] = 0x84;
        }
        Kind::Sx1272 => {
            regs[REG_MODEM_CONFIG1 as usize] = 0x08;
            regs[REG_MODEM_CONFIG2 as usize] = 0x74;
            regs[REG_VERSION as usize] = 0x22;
            regs[REG_PA_DAC_SX1272 as usize] = 0x84;
        }
    }
    regs
}

impl Chip127x {
    pub fn new(kind: Kind) -> Self {
        Chip127x {
            kind,
            regs: reset_regs(kind),
            fifo: [0; 256],
            irq_on_rx: 0,
            irq_on_tx: IRQ_TX_DONE,
            writes: 0,
            exchanges: 0,
            last_fifo_read: None,
            written: [false; 128],
            since_por: [false; 128],
            power_ons: 0,
            air: None,
            air_count: 0,
        }
    }

    /// NRESET: every register returns to its reset value (FSK/OOK standby included). The FIFO content and
    /// what the harness scripts (flags to raise, reported length / address: those registers are written
    /// by the harness at "reception" time) are not configuration.
    pub fn power_on(&mut self) {
        let keep = [REG_RX_NB_BYTES, REG_FIFO_RX_CURRENT_ADDR, REG_PKT_SNR_VALUE, REG_PKT_RSSI_VALUE, REG_RSSI_VALUE];
        let saved: Vec<u8> = keep.iter().map(|a| self.regs[*a as usize]).collect();
        self.regs = reset_regs(self.kind);
        for (a, v) in keep.iter().zip(saved) {
            self.regs[*a as usize] = v;
        }
        self.since_por = [false; 128];
        self.power_ons += 1;
    }

    /// the configuration the chip holds right now. The SX127x reset values are documented (datasheet
    /// register tables) and are what the chip runs with until a register is written, so every field is
    /// the register content, written or not: after NRESET that is the reset value (434.000 MHz, LDRO off,
    /// explicit header, RegPaConfig 0x4F, 100 symbols ...), which only by coincidence is somebody's request.
    pub fn held(&self) -> Held {
        let implicit_bit = match self.kind {
            Kind::Sx1276 => 0x01u8,
            Kind::Sx1272 => 0x04u8,
        };
        Held {
            lora_mode: self.reg(REG_OP_MODE) & 0x80 != 0,
            freq_word: Some(self.frf()),
            modp: None,
            ldro: Some(self.ldro_bit() as u8),
            pkt_implicit: Some(self.reg(REG_MODEM_CONFIG1) & implicit_bit != 0),
            pkt_len: Some(self.reg(REG_PAYLOAD_LENGTH)),
            pa126: None,
            txp126: None,
            pa127: Some((self.reg(REG_PA_CONFIG), self.pa_dac())),
            symb: vec![("SymbTimeout", self.symb_timeout())],
        }
    }

    pub fn reg(&self, a: u8) -> u8 {
        self.regs[(a & 0x7F) as usize]
    }
    pub fn set_reg(&mut self, a: u8, v: u8) {
        self.regs[(a & 0x7F) as usize] = v;
    }
    pub fn clear_written(&mut self) {
        self.written = [false; 128];
    }
    pub fn frf(&self) -> u32 {
        ((self.reg(REG_FRF_MSB) as u32) << 16) | ((self.reg(REG_FRF_MID) as u32) << 8) | self.reg(REG_FRF_LSB) as u32
    }
    pub fn pa_dac(&self) -> u8 {
        match self.kind {
            Kind::Sx1276 => self.reg(REG_PA_DAC_SX1276),
            Kind::Sx1272 => self.reg(REG_PA_DAC_SX1272),
        }
    }
    /// RegModemConfig2[1:0] : RegSymbTimeoutLsb
    pub fn symb_timeout(&self) -> u32 {
        (((self.reg(REG_MODEM_CONFIG2) & 0x03) as u32) << 8) | self.reg(REG_SYMB_TIMEOUT_LSB) as u32
    }
    /// LowDataRateOptimize bit: RegModemConfig3[3] on SX1276, RegModemConfig1[0] on SX1272
    pub fn ldro_bit(&self) -> bool {
        match self.kind {
            Kind::Sx1276 => self.reg(REG_MODEM_CONFIG3) & 0x08 != 0,
            Kind::Sx1272 => self.reg(REG_MODEM_CONFIG1) & 0x01 != 0,
        }
    }
    pub fn ldro_reg_written(&self) -> bool {
        match self.kind {
            Kind::Sx1276 => self.written[REG_MODEM_CONFIG3 as usize],
            Kind::Sx1272 => self.written[REG_MODEM_CONFIG1 as usize],
        }
    }

    fn read_only(a: u8) -> bool {
        matches!(a, REG_FIFO_RX_CURRENT_ADDR | REG_RX_NB_BYTES | REG_MODEM_STAT | REG_PKT_SNR_VALUE | REG_PKT_RSSI_VALUE | REG_RSSI_VALUE | REG_VERSION)
    }

    fn write_reg(&mut self, a: u8, v: u8) {
        self.writes += 1;
        self.written[a as usize] = true;
        self.since_por[a as usize] = true;
        if Self::read_only(a) {
            return;
        }
        match a {
            REG_IRQ_FLAGS => self.regs[a as usize] &= !v, // write 1 to clear
            REG_OP_MODE => {
                self.regs[a as usize] = v;
                let kind = match v & 0x07 {
                    0x05 | 0x06 => Some(AirKind::Rx),
                    0x03 => Some(AirKind::Tx),
                    0x07 => Some(AirKind::Cad),
                    _ => None,
                };
                if let Some(kind) = kind {
                    self.air = Some(Air { kind, held: self.held() });
                    self.air_count += 1;
                }
                match v & 0x07 {
                    0x05 | 0x06 => self.regs[REG_IRQ_FLAGS as usize] |= self.irq_on_rx,
                    0x03 => self.regs[REG_IRQ_FLAGS as usize] |= self.irq_on_tx,
                    0x07 => self.regs[REG_IRQ_FLAGS as usize] |= IRQ_CAD_DONE,
                    _ => {}
                }
            }
            _ => self.regs[a as usize] = v,
        }
    }
}

impl ChipModel for Chip127x {
    fn exchange(&mut self, mosi: &[u8], miso: &mut [u8]) {
        self.exchanges += 1;
        if mosi.is_empty() {
            return;
        }
        let write = mosi[0] & 0x80 != 0;
        let mut addr = mosi[0] & 0x7F;
        miso[0] = 0;
        let fifo_start = self.regs[REG_FIFO_ADDR_PTR as usize];
        let mut fifo_reads = 0usize;
        for i in 1..mosi.len() {
            if addr == REG_FIFO {
                let p = self.regs[REG_FIFO_ADDR_PTR as usize];
                if write {
                    self.fifo[p as usize] = mosi[i];
                    self.writes += 1;
                    miso[i] = 0;
                } else {
                    miso[i] = self.fifo[p as usize];
                    fifo_reads += 1;
                }
                self.regs[REG_FIFO_ADDR_PTR as usize] = p.wrapping_add(1);
            } else {
                if write {
                    miso[i] = self.regs[addr as usize];
                    self.write_reg(addr, mosi[i]);
                } else {
                    miso[i] = self.regs[addr as usize];
                }
                addr = (addr + 1) & 0x7F;
            }
        }
        if mosi[0] & 0x7F == REG_FIFO && !write {
            self.last_fifo_read = Some((fifo_start, fifo_reads));
        }
    }
}
