//! SX1261/2 command-level model (also the STM32WL sub-GHz radio, which has the same command set).
//! Opcodes, response layouts and register addresses are transcribed from DS.SX1261-2.W.APP
//! (chapters 11-13, 15) — deliberately NOT from lora-phy's enums.
//!
//! The model keeps a register file, the 256-byte data buffer (with 8-bit address wrap-around),
//! the values the chip would report (status byte, RX buffer status, packet status, IRQ flags,
//! instantaneous RSSI: all scripted by the harness), and captures the configuration commands the
//! properties decode (frequency, PA, TX power, symbol timeout, modulation and packet parameters).

use super::{Air, AirKind, ChipModel, Held};

// --- command opcodes (datasheet table 11-1 .. 11-5)
pub const OP_SET_SLEEP: u8 = 0x84;
pub const OP_SET_STANDBY: u8 = 0x80;
pub const OP_SET_FS: u8 = 0xC1;
pub const OP_SET_TX: u8 = 0x83;
pub const OP_SET_RX: u8 = 0x82;
pub const OP_STOP_TIMER_ON_PREAMBLE: u8 = 0x9F;
pub const OP_SET_RX_DUTY_CYCLE: u8 = 0x94;
pub const OP_SET_CAD: u8 = 0xC5;
pub const OP_SET_TX_CW: u8 = 0xD1;
pub const OP_SET_TX_INFINITE_PREAMBLE: u8 = 0xD2;
pub const OP_SET_REGULATOR_MODE: u8 = 0x96;
pub const OP_CALIBRATE: u8 = 0x89;
pub const OP_CALIBRATE_IMAGE: u8 = 0x98;
pub const OP_SET_PA_CONFIG: u8 = 0x95;
pub const OP_SET_RX_TX_FALLBACK: u8 = 0x93;
pub const OP_WRITE_REGISTER: u8 = 0x0D;
pub const OP_READ_REGISTER: u8 = 0x1D;
pub const OP_WRITE_BUFFER: u8 = 0x0E;
pub const OP_READ_BUFFER: u8 = 0x1E;
pub const OP_SET_DIO_IRQ_PARAMS: u8 = 0x08;
pub const OP_GET_IRQ_STATUS: u8 = 0x12;
pub const OP_CLEAR_IRQ_STATUS: u8 = 0x02;
pub const OP_SET_DIO2_RF_SWITCH: u8 = 0x9D;
pub const OP_SET_DIO3_TCXO: u8 = 0x97;
pub const OP_SET_RF_FREQUENCY: u8 = 0x86;
pub const OP_SET_PACKET_TYPE: u8 = 0x8A;
pub const OP_GET_PACKET_TYPE: u8 = 0x11;
pub const OP_SET_TX_PARAMS: u8 = 0x8E;
pub const OP_SET_MODULATION_PARAMS: u8 = 0x8B;
pub const OP_SET_PACKET_PARAMS: u8 = 0x8C;
pub const OP_SET_CAD_PARAMS: u8 = 0x88;
pub const OP_SET_BUFFER_BASE_ADDRESS: u8 = 0x8F;
pub const OP_SET_LORA_SYMB_NUM_TIMEOUT: u8 = 0xA0;
pub const OP_GET_STATUS: u8 = 0xC0;
pub const OP_GET_RSSI_INST: u8 = 0x15;
pub const OP_GET_RX_BUFFER_STATUS: u8 = 0x13;
pub const OP_GET_PACKET_STATUS: u8 = 0x14;
pub const OP_GET_DEVICE_ERRORS: u8 = 0x17;
pub const OP_CLEAR_DEVICE_ERRORS: u8 = 0x07;
pub const OP_GET_STATS: u8 = 0x10;
pub const OP_RESET_STATS: u8 = 0x00;

// --- registers (datasheet table 12-1 and chapter 15)
pub const REG_LORA_PAYLOAD_LENGTH: usize = 0x0702; // payload length programmed by SetPacketParams
pub const REG_LORA_SYNCH_TIMEOUT: usize = 0x0706; // [7:3] mantissa, [2:0] exponent: mant * 2^(2*exp+1) symbols
pub const REG_IQ_POLARITY: usize = 0x0736;
pub const REG_LORA_SYNC_WORD_MSB: usize = 0x0740;
pub const REG_TX_MODULATION: usize = 0x0889;
pub const REG_RX_GAIN: usize = 0x08AC;
pub const REG_TX_CLAMP_CONFIG: usize = 0x08D8;
pub const REG_OCP: usize = 0x08E7;
pub const REG_RTC_CONTROL: usize = 0x0902;
pub const REG_EVENT_MASK: usize = 0x0944;
pub const REG_RETENTION_LIST: usize = 0x029F;

// --- IRQ bits (datasheet table 13-29)
pub const IRQ_TX_DONE: u16 = 1 << 0;
pub const IRQ_RX_DONE: u16 = 1 << 1;
pub const IRQ_PREAMBLE_DETECTED: u16 = 1 << 2;
pub const IRQ_HEADER_VALID: u16 = 1 << 4;
pub const IRQ_HEADER_ERR: u16 = 1 << 5;
pub const IRQ_CRC_ERR: u16 = 1 << 6;
pub const IRQ_CAD_DONE: u16 = 1 << 7;
pub const IRQ_TIMEOUT: u16 = 1 << 9;

/// status byte with chip mode STBY_RC (2) and command status "data available" (2)
pub const STATUS_OK: u8 = (2 << 4) | (2 << 1);

#[derive(Debug, Clone, Copy, PartialEq, Eq)]
pub enum Mode {
    Sleep,
    Standby,
    Fs,
    Tx,
    Rx,
    RxDutyCycle,
    Cad,
}

pub struct Chip126x {
    pub regs: Box<[u8; 0x1000]>,
    pub buffer: [u8; 256],
    pub mode: Mode,
    // ---- what the chip reports (scripted by the harness)
    /// status byte returned by every command that returns one
    pub status: u8,
    pub rx_len: u8,
    pub rx_start: u8,
    pub pkt_status: [u8; 3],
    pub rssi_inst: u8,
    pub irq: u16,
    /// IRQ flags latched when the chip is put into RX / TX
    pub irq_on_rx: u16,
    pub irq_on_tx: u16,
    // ---- captured configuration (None until programmed)
    pub rf_freq_steps: Option<u32>,
    pub pa_config: Option<[u8; 4]>,
    pub tx_params: Option<[u8; 2]>,
    pub symb_timeout_cmd: Option<u8>,
    /// value written to REG_LORA_SYNCH_TIMEOUT after the last SetLoRaSymbNumTimeout, if any
    pub symb_timeout_reg: Option<u8>,
    pub mod_params: Option<[u8; 4]>,
    pub mod_params_count: u32,
    pub pkt_params: Option<[u8; 6]>,
    pub rx_timeout: Option<u32>,
    pub last_read_buffer: Option<(u8, usize)>,
    /// protocol anomalies (unknown opcode, short command): never expected; reported by the properties
    pub anomalies: Vec<String>,
    pub exchanges: u64,
    // ---- what the silicon remembers and forgets (datasheet 9.3 / 13.1.1: only a warm start retains the configuration)
    /// SetPacketType argument (1 = LoRa); None after power-on (the chip then runs its GFSK default)
    pub packet_type: Option<u8>,
    /// SetBufferBaseAddress arguments (TX base, RX base)
    pub buf_base: Option<[u8; 2]>,
    /// the last SetSleep asked for a cold start: the configuration is gone when the chip wakes up
    pub cold_sleep: bool,
    /// number of power-on resets (NRESET, wake-up from a sleep without retention) so far
    pub power_ons: u32,
    /// held configuration at the most recent SetTx / SetRx / SetRxDutyCycle / SetCad / SetTxContinuousWave
    pub air: Option<Air>,
    pub air_count: u64,
}

fn reset_regs(regs: &mut [u8; 0x1000]) {
    *regs = [0u8; 0x1000];
    // reset values that matter to read-modify-write sequences (datasheet table 12-1)
    regs[REG_LORA_SYNC_WORD_MSB] = 0x14;
    regs[REG_LORA_SYNC_WORD_MSB + 1] = 0x24;
    regs[REG_IQ_POLARITY] = 0x0D;
    regs[REG_TX_MODULATION] = 0x01;
    regs[REG_RX_GAIN] = 0x94;
    regs[REG_TX_CLAMP_CONFIG] = 0xC8;
    regs[REG_OCP] = 0x18;
}

impl Chip126x {
    pub fn new() -> Self {
        let mut regs = Box::new([0u8; 0x1000]);
        reset_regs(&mut regs);
        Chip126x {
            regs,
            buffer: [0; 256],
            mode: Mode::Standby,
            status: STATUS_OK,
            rx_len: 0,
            rx_start: 0,
            pkt_status: [0; 3],
            rssi_inst: 0,
            irq: 0,
            irq_on_rx: 0,
            irq_on_tx: IRQ_TX_DONE,
            rf_freq_steps: None,
            pa_config: None,
            tx_params: None,
            symb_timeout_cmd: None,
            symb_timeout_reg: None,
            mod_params: None,
            mod_params_count: 0,
            pkt_params: None,
            rx_timeout: None,
            last_read_buffer: None,
            anomalies: Vec::new(),
            exchanges: 0,
            packet_type: None,
            buf_base: None,
            cold_sleep: false,
            power_ons: 0,
            air: None,
            air_count: 0,
        }
    }

    /// NRESET, or waking up from a sleep without retention: registers return to their reset values and
    /// every configuration command is forgotten (RF frequency, packet type, modulation and packet
    /// parameters, PA configuration, TX parameters, symbol timeout, sync word, buffer base addresses,
    /// interrupt flags). What the harness scripts (status byte, reported RX buffer status, packet
    /// status, flags to raise) and the data buffer content are not chip configuration and stay.
    pub fn power_on(&mut self) {
        reset_regs(&mut self.regs);
        self.mode = Mode::Standby;
        self.irq = 0;
        self.clear_captures();
        self.packet_type = None;
        self.buf_base = None;
        self.cold_sleep = false;
        self.power_ons += 1;
    }

    /// the configuration the chip holds right now
    pub fn held(&self) -> Held {
        let mut symb = Vec::new();
        if let Some(c) = self.symb_timeout_cmd {
            symb.push(("SetLoRaSymbNumTimeout", c as u32));
            if let Some(r) = self.symb_timeout_reg {
                symb.push(("SYNCH_TIMEOUT-register", Self::decode_synch_timeout(r)));
            }
        }
        Held {
            lora_mode: self.packet_type == Some(0x01),
            freq_word: self.rf_freq_steps,
            modp: self.mod_params,
            ldro: self.mod_params.map(|m| m[3]),
            pkt_implicit: self.pkt_params.map(|p| p[2] != 0),
            pkt_len: self.pkt_params.map(|p| p[3]),
            pa126: self.pa_config,
            txp126: self.tx_params,
            pa127: None,
            symb,
        }
    }

    fn on_air(&mut self, kind: AirKind) {
        self.air = Some(Air { kind, held: self.held() });
        self.air_count += 1;
    }

    pub fn clear_captures(&mut self) {
        self.rf_freq_steps = None;
        self.pa_config = None;
        self.tx_params = None;
        self.symb_timeout_cmd = None;
        self.symb_timeout_reg = None;
        self.mod_params = None;
        self.mod_params_count = 0;
        self.pkt_params = None;
        self.rx_timeout = None;
        self.last_read_buffer = None;
    }

    fn anomaly(&mut self, s: String) {
        if self.anomalies.len() < 8 {
            self.anomalies.push(s);
        }
    }

    fn need(&mut self, mosi: &[u8], n: usize, name: &str) -> bool {
        if mosi.len() < n {
            self.anomaly(format!("{name}: {} bytes clocked, at least {n} needed", mosi.len()));
            false
        } else {
            true
        }
    }

    /// symbols encoded by the SYNCH_TIMEOUT register layout
    pub fn decode_synch_timeout(reg: u8) -> u32 {
        let mant = (reg >> 3) as u32;
        let exp = (reg & 0x07) as u32;
        mant << (2 * exp + 1)
    }
}

impl ChipModel for Chip126x {
    fn exchange(&mut self, mosi: &[u8], miso: &mut [u8]) {
        self.exchanges += 1;
        if mosi.is_empty() {
            return;
        }
        // while a command is clocked in, the chip shifts out its status on every byte that does not
        // carry data
        for b in miso.iter_mut() {
            *b = self.status;
        }
        let op = mosi[0];
        if self.mode == Mode::Sleep {
            // any NSS falling edge wakes the chip; the command itself is executed after wake-up in
            // this model (busy handling is out of scope here, C14 owns it). After a sleep without
            // retention the chip starts over from its power-on state.
            self.mode = Mode::Standby;
            if self.cold_sleep {
                self.power_on();
            }
        }
        match op {
            OP_WRITE_REGISTER => {
                if self.need(mosi, 3, "WriteRegister") {
                    let mut a = ((mosi[1] as usize) << 8) | mosi[2] as usize;
                    for &v in &mosi[3..] {
                        let idx = a & 0x0FFF;
                        self.regs[idx] = v;
                        if idx == REG_LORA_SYNCH_TIMEOUT {
                            self.symb_timeout_reg = Some(v);
                        }
                        a += 1;
                    }
                }
            }
            OP_READ_REGISTER => {
                if self.need(mosi, 4, "ReadRegister") {
                    let a = ((mosi[1] as usize) << 8) | mosi[2] as usize;
                    for (i, m) in miso.iter_mut().enumerate().skip(4) {
                        *m = self.regs[(a + i - 4) & 0x0FFF];
                    }
                }
            }
            OP_WRITE_BUFFER => {
                if self.need(mosi, 2, "WriteBuffer") {
                    let off = mosi[1];
                    for (i, &v) in mosi[2..].iter().enumerate() {
                        self.buffer[off.wrapping_add(i as u8) as usize] = v;
                    }
                }
            }
            OP_READ_BUFFER => {
                if self.need(mosi, 3, "ReadBuffer") {
                    let off = mosi[1];
                    let n = miso.len() - 3;
                    for (i, m) in miso.iter_mut().enumerate().skip(3) {
                        *m = self.buffer[off.wrapping_add((i - 3) as u8) as usize];
                    }
                    self.last_read_buffer = Some((off, n));
                }
            }
            OP_SET_RF_FREQUENCY => {
                if self.need(mosi, 5, "SetRfFrequency") {
                    self.rf_freq_steps = Some(u32::from_be_bytes([mosi[1], mosi[2], mosi[3], mosi[4]]));
                }
            }
            OP_SET_PA_CONFIG => {
                if self.need(mosi, 5, "SetPaConfig") {
                    self.pa_config = Some([mosi[1], mosi[2], mosi[3], mosi[4]]);
                }
            }
            OP_SET_TX_PARAMS => {
                if self.need(mosi, 3, "SetTxParams") {
                    self.tx_params = Some([mosi[1], mosi[2]]);
                }
            }
            OP_SET_LORA_SYMB_NUM_TIMEOUT => {
                if self.need(mosi, 2, "SetLoRaSymbNumTimeout") {
                    self.symb_timeout_cmd = Some(mosi[1]);
                    self.symb_timeout_reg = None;
                }
            }
            OP_SET_MODULATION_PARAMS => {
                if self.need(mosi, 5, "SetModulationParams(LoRa)") {
                    self.mod_params = Some([mosi[1], mosi[2], mosi[3], mosi[4]]);
                    self.mod_params_count += 1;
                }
            }
            OP_SET_PACKET_PARAMS => {
                if self.need(mosi, 7, "SetPacketParams(LoRa)") {
                    self.pkt_params = Some([mosi[1], mosi[2], mosi[3], mosi[4], mosi[5], mosi[6]]);
                    self.regs[REG_LORA_PAYLOAD_LENGTH] = mosi[4];
                }
            }
            OP_GET_RX_BUFFER_STATUS => {
                if miso.len() > 2 {
                    miso[2] = self.rx_len;
                }
                if miso.len() > 3 {
                    miso[3] = self.rx_start;
                }
            }
            OP_GET_PACKET_STATUS => {
                for i in 0..3 {
                    if miso.len() > 2 + i {
                        miso[2 + i] = self.pkt_status[i];
                    }
                }
            }
            OP_GET_RSSI_INST => {
                if miso.len() > 2 {
                    miso[2] = self.rssi_inst;
                }
            }
            OP_GET_IRQ_STATUS => {
                if miso.len() > 2 {
                    miso[2] = (self.irq >> 8) as u8;
                }
                if miso.len() > 3 {
                    miso[3] = self.irq as u8;
                }
            }
            OP_CLEAR_IRQ_STATUS => {
                if self.need(mosi, 3, "ClearIrqStatus") {
                    let m = ((mosi[1] as u16) << 8) | mosi[2] as u16;
                    self.irq &= !m;
                }
            }
            OP_SET_RX => {
                if self.need(mosi, 4, "SetRx") {
                    self.on_air(AirKind::Rx);
                    self.rx_timeout = Some(((mosi[1] as u32) << 16) | ((mosi[2] as u32) << 8) | mosi[3] as u32);
                    self.mode = Mode::Rx;
                    self.irq |= self.irq_on_rx;
                }
            }
            OP_SET_RX_DUTY_CYCLE => {
                self.on_air(AirKind::Rx);
                self.mode = Mode::RxDutyCycle;
                self.irq |= self.irq_on_rx;
            }
            OP_SET_TX => {
                self.on_air(AirKind::Tx);
                self.mode = Mode::Tx;
                self.irq |= self.irq_on_tx;
            }
            OP_SET_STANDBY => self.mode = Mode::Standby,
            OP_SET_FS => self.mode = Mode::Fs,
            OP_SET_SLEEP => {
                // sleepConfig bit 2: 0 = cold start, 1 = warm start (configuration retained), table 13-2
                self.cold_sleep = mosi.len() < 2 || mosi[1] & 0x04 == 0;
                self.mode = Mode::Sleep;
            }
            OP_SET_CAD => {
                self.on_air(AirKind::Cad);
                self.mode = Mode::Cad;
                self.irq |= IRQ_CAD_DONE;
            }
            OP_SET_TX_CW => {
                self.on_air(AirKind::TxCw);
                self.mode = Mode::Tx;
            }
            OP_SET_PACKET_TYPE => {
                if self.need(mosi, 2, "SetPacketType") {
                    self.packet_type = Some(mosi[1]);
                }
            }
            OP_SET_BUFFER_BASE_ADDRESS => {
                if self.need(mosi, 3, "SetBufferBaseAddress") {
                    self.buf_base = Some([mosi[1], mosi[2]]);
                }
            }
            OP_GET_DEVICE_ERRORS | OP_CLEAR_DEVICE_ERRORS | OP_GET_STATS | OP_GET_PACKET_TYPE => {
                for m in miso.iter_mut().skip(2) {
                    *m = 0;
                }
            }
            OP_GET_STATUS
            | OP_STOP_TIMER_ON_PREAMBLE
            | OP_SET_TX_INFINITE_PREAMBLE
            | OP_SET_REGULATOR_MODE
            | OP_CALIBRATE
            | OP_CALIBRATE_IMAGE
            | OP_SET_RX_TX_FALLBACK
            | OP_SET_DIO_IRQ_PARAMS
            | OP_SET_DIO2_RF_SWITCH
            | OP_SET_DIO3_TCXO
            | OP_SET_CAD_PARAMS
            | OP_RESET_STATS => {}
            other => self.anomaly(format!("unknown opcode 0x{other:02X}")),
        }
    }
}
