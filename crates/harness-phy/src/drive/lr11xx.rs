//! LR11xx command recorder. Commands are 16-bit opcode + arguments written in one exchange; a
//! response is fetched by a separate all-NOP exchange whose first byte is Stat1 (LR1110 user manual,
//! chapter 3). Only what C15 needs is decoded: SetModulationParams (opcode 0x020F, user manual
//! table "SetModulationParams command": SF, BWL, CR, LowDataRateOptimize), and — for the stateful
//! histories — what makes the chip forget it (SetSleep 0x011B without retention, Reboot 0x0118, NRESET),
//! the commands that put it on the air (SetRx 0x0209, SetTx 0x020A, SetCad 0x0218, SetTxCw 0x0219,
//! SetRxDutyCycle 0x0214) and the interrupt flags a bare read returns (Stat1, Stat2, IrqStatus[31:0]).

use super::{Air, AirKind, ChipModel, Held};

pub const OP_SET_MODULATION_PARAM: [u8; 2] = [0x02, 0x0F];
pub const OP_SET_PACKET_TYPE: [u8; 2] = [0x02, 0x0E];
pub const OP_SET_RF_FREQUENCY: [u8; 2] = [0x02, 0x0B];
pub const OP_SET_RX: [u8; 2] = [0x02, 0x09];
pub const OP_SET_TX: [u8; 2] = [0x02, 0x0A];
pub const OP_SET_CAD: [u8; 2] = [0x02, 0x18];
pub const OP_SET_TX_CW: [u8; 2] = [0x02, 0x19];
pub const OP_SET_RX_DUTY_CYCLE: [u8; 2] = [0x02, 0x14];
pub const OP_SET_SLEEP: [u8; 2] = [0x01, 0x1B];
pub const OP_REBOOT: [u8; 2] = [0x01, 0x18];
pub const OP_CLEAR_IRQ: [u8; 2] = [0x01, 0x14];
/// Stat1 with command status CMD_OK (bits 3:1 = 2)
pub const STAT1_CMD_OK: u8 = 2 << 1;

// IrqStatus bits (user manual, table "IRQ status bits")
pub const IRQ_TX_DONE: u32 = 1 << 2;
pub const IRQ_RX_DONE: u32 = 1 << 3;
pub const IRQ_CAD_DONE: u32 = 1 << 8;
pub const IRQ_TIMEOUT: u32 = 1 << 10;

pub struct Lr11xx {
    pub mod_params: Option<[u8; 4]>,
    pub mod_params_count: u32,
    pub commands: u64,
    pub packet_type: Option<u8>,
    pub rf_freq_hz: Option<u32>,
    pub irq: u32,
    /// flags raised when SetRx is commanded (scripted by the harness)
    pub irq_on_rx: u32,
    pub asleep: bool,
    /// the last SetSleep did not ask for retention
    pub cold_sleep: bool,
    pub power_ons: u32,
    pub air: Option<Air>,
    pub air_count: u64,
}

impl Lr11xx {
    pub fn new() -> Self {
        Lr11xx { mod_params: None, mod_params_count: 0, commands: 0, packet_type: None, rf_freq_hz: None, irq: 0, irq_on_rx: IRQ_TIMEOUT, asleep: false, cold_sleep: false, power_ons: 0, air: None, air_count: 0 }
    }

    /// NRESET, Reboot, or waking up from a sleep without retention: the radio configuration is gone
    pub fn power_on(&mut self) {
        self.mod_params = None;
        self.packet_type = None;
        self.rf_freq_hz = None;
        self.irq = 0;
        self.asleep = false;
        self.cold_sleep = false;
        self.power_ons += 1;
    }

    pub fn held(&self) -> Held {
        Held { lora_mode: self.packet_type == Some(0x02), freq_word: self.rf_freq_hz, modp: self.mod_params, ldro: self.mod_params.map(|m| m[3]), ..Default::default() }
    }

    fn on_air(&mut self, kind: AirKind) {
        self.air = Some(Air { kind, held: self.held() });
        self.air_count += 1;
    }
}

impl ChipModel for Lr11xx {
    fn exchange(&mut self, mosi: &[u8], miso: &mut [u8]) {
        if mosi.is_empty() {
            return;
        }
        if self.asleep {
            // an NSS falling edge wakes the chip up
            self.asleep = false;
            if self.cold_sleep {
                self.power_on();
            }
        }
        if mosi[0] == 0x00 {
            // response fetch / bare status read: Stat1, Stat2, then IrqStatus (bare read) or data (zeros).
            // The drivers' data reads all follow a command; the only bare read of six bytes is the
            // status/interrupt read.
            miso[0] = STAT1_CMD_OK;
            for m in miso.iter_mut().skip(1) {
                *m = 0;
            }
            if miso.len() == 6 {
                miso[2..6].copy_from_slice(&self.irq.to_be_bytes());
            }
            return;
        }
        self.commands += 1;
        for m in miso.iter_mut() {
            *m = STAT1_CMD_OK;
        }
        if mosi.len() < 2 {
            return;
        }
        let op = [mosi[0], mosi[1]];
        if mosi.len() >= 6 && op == OP_SET_MODULATION_PARAM {
            self.mod_params = Some([mosi[2], mosi[3], mosi[4], mosi[5]]);
            self.mod_params_count += 1;
        } else if op == OP_SET_PACKET_TYPE && mosi.len() >= 3 {
            self.packet_type = Some(mosi[2]);
        } else if op == OP_SET_RF_FREQUENCY && mosi.len() >= 6 {
            self.rf_freq_hz = Some(u32::from_be_bytes([mosi[2], mosi[3], mosi[4], mosi[5]]));
        } else if op == OP_SET_RX || op == OP_SET_RX_DUTY_CYCLE {
            self.on_air(AirKind::Rx);
            self.irq |= self.irq_on_rx;
        } else if op == OP_SET_TX {
            self.on_air(AirKind::Tx);
            self.irq |= IRQ_TX_DONE;
        } else if op == OP_SET_CAD {
            self.on_air(AirKind::Cad);
            self.irq |= IRQ_CAD_DONE;
        } else if op == OP_SET_TX_CW {
            self.on_air(AirKind::TxCw);
        } else if op == OP_CLEAR_IRQ && mosi.len() >= 6 {
            self.irq &= !u32::from_be_bytes([mosi[2], mosi[3], mosi[4], mosi[5]]);
        } else if op == OP_SET_SLEEP {
            // sleepConfig bit 0: 1 = retention (warm start), 0 = none
            self.cold_sleep = mosi.len() < 3 || mosi[2] & 0x01 == 0;
            self.asleep = true;
        } else if op == OP_REBOOT {
            self.power_on();
        }
    }
}
