//! LR11xx command recorder. Commands are 16-bit opcode + arguments written in one exchange; a
//! response is fetched by a separate all-NOP exchange whose first byte is Stat1 (LR1110 user manual,
//! chapter 3). Only what C15 needs is decoded: SetModulationParams (opcode 0x020F, user manual
//! table "SetModulationParams command": SF, BWL, CR, LowDataRateOptimize).

use super::ChipModel;

pub const OP_SET_MODULATION_PARAM: [u8; 2] = [0x02, 0x0F];
/// Stat1 with command status CMD_OK (bits 3:1 = 2)
pub const STAT1_CMD_OK: u8 = 2 << 1;

pub struct Lr11xx {
    pub mod_params: Option<[u8; 4]>,
    pub mod_params_count: u32,
    pub commands: u64,
}

impl Lr11xx {
    pub fn new() -> Self {
        Lr11xx { mod_params: None, mod_params_count: 0, commands: 0 }
    }
}

impl ChipModel for Lr11xx {
    fn exchange(&mut self, mosi: &[u8], miso: &mut [u8]) {
        if mosi.is_empty() {
            return;
        }
        if mosi[0] == 0x00 {
            // response fetch: Stat1 then data (zeros)
            miso[0] = STAT1_CMD_OK;
            for m in miso.iter_mut().skip(1) {
                *m = 0;
            }
            return;
        }
        self.commands += 1;
        for m in miso.iter_mut() {
            *m = STAT1_CMD_OK;
        }
        if mosi.len() >= 6 && mosi[0..2] == OP_SET_MODULATION_PARAM {
            self.mod_params = Some([mosi[2], mosi[3], mosi[4], mosi[5]]);
            self.mod_params_count += 1;
        }
    }
}
