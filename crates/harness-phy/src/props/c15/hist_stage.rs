//! C15, stateful stage: the judged (SF, BW) request is the LAST step of a history on one driver
//! instance (see props/hist.rs). What is judged is the LowDataRateOptimize setting the chip HOLDS at
//! the moment the request puts it on the air (SetTx / SetRx / SetCad, RegOpMode TX / RX / CAD), or —
//! for a bare `RadioKind::set_modulation_params` — right after the call; a chip that has been through
//! a sleep without retention or a reset since the setting was last written holds none.

use super::*;
use crate::props::hist::{self, Hist, Mod, Mode, Op, Outcome, Pkt, RxEnd, KIND, LORA, LORAWAN};

/// indices into hist::CHIPS: SX1261, SX1262, SX1276, SX1272, LR1110 (the STM32WL variants share the SX126x code path
/// for everything this property looks at and are covered by the stateless grid)
const HCHIPS: [usize; 5] = [0, 1, 4, 5, 6];
const FREQ: u32 = 868_100_000;

fn imp_of(chip: usize) -> usize {
    IMPLS.iter().position(|s| *s == hist::CHIPS[chip]).expect("chip names are shared with the stateless stage")
}

/// the (SF, BW, CR, frequency) the judged operation asks for
fn requested(j: &Op) -> Option<Mod> {
    match j {
        Op::Tx { m, .. } | Op::Rx { m, .. } | Op::Cad { m } | Op::Cw { m, .. } | Op::KMod { m } | Op::LwTx { m, .. } | Op::LwRx { m, .. } => Some(*m),
        // listen() programs SF7 at the requested bandwidth
        Op::Listen { freq, bw } => Some(Mod { sf: 2, bw: *bw, cr: 0, freq: *freq }),
        _ => None,
    }
}

pub(super) enum HV {
    Ok,
    NotJudged(&'static str),
    Tolerated(&'static str),
    Fail(Failure),
}

pub(super) fn judge_hist(h: &Hist, out: &Outcome, kf: &KnownFindings) -> HV {
    let Some(m) = requested(h.judged()) else {
        return HV::NotJudged("judged-op-has-no-modulation");
    };
    if out.setup_err.is_some() {
        return HV::NotJudged("driver-bring-up-failed");
    }
    let last = &out.last;
    let (observed, when) = match (&last.air, &last.err) {
        (Some(a), _) => (a.held.ldro, format!("when the chip was put on the air ({:?})", a.kind)),
        (None, None) => (last.held.ldro, "after the call returned".to_string()),
        // refused (unsupported pair, SF6 with explicit header, ...) or failed before anything went on the air
        (None, Some(_)) => return HV::NotJudged("judged-op-refused-or-failed"),
    };
    let imp = imp_of(h.chip);
    let fam = family(IMPLS[imp]);
    let case = h.json("C15");
    let pair = format!("{} of SF{} @ {} Hz", hist::op_name(h.judged()), SF_NUM[m.sf], BW_ROUNDED_HZ[m.bw]);
    let Some(p) = observed else {
        return HV::Fail(
            Failure::new("ldro-programmed", case, format!("{pair} as the last step of the history: {when} it held no LowDataRateOptimize setting written since its last power-on / wake-up without retention"))
                .with_fp(format!("ldro-not-programmed/{fam}/after-history")),
        );
    };
    if p > 1 {
        return HV::Fail(Failure::new("ldro-programmed", case, format!("{pair}: LowDataRateOptimize held as 0x{p:02x} (datasheet: 0x00 or 0x01)")).with_fp(format!("ldro-byte-invalid/{fam}/after-history")));
    }
    let eff = p != 0;
    let mut extra = String::new();
    if let Some(d) = last.decision {
        if (d != 0) != eff {
            extra = format!(" (the driver's own decision low_data_rate_optimize={d} did not reach the chip)");
        }
    }
    let (nominal, _) = rules(m.sf, m.bw);
    if dont_care(m.sf, m.bw) {
        let bb = BaseBandModulationParams::new(SFS[m.sf], BWS[m.bw], CRS[m.cr]).ldro;
        if eff != bb {
            return HV::Fail(Failure::new("ldro-agreement", case, format!("{pair} as the last step of the history: the chip holds {eff} {when}, the airtime calculator decides {bb}{extra}")).with_fp(format!("ldro-agreement/{fam}/after-history")));
        }
        return HV::Ok;
    }
    if eff != nominal {
        let dir = if nominal { "off-but-required" } else { "on-but-not-required" };
        let fp = format!("ldro-rule/{fam}/{dir}");
        let c = Case { imp, path: 0, sf: m.sf, bw: m.bw, cr: m.cr, freq: m.freq, prior: 0, board: h.board, variant: 0 };
        if last.decision.map(|d| (d != 0) == eff).unwrap_or(true) {
            if let Some(id) = known(kf, fam, &c, &fp) {
                return HV::Tolerated(id);
            }
        }
        let t = t_sym_ns(m.sf, m.bw);
        return HV::Fail(
            Failure::new(
                "ldro-rule",
                case,
                format!("{pair} as the last step of the history: symbol time {}.{:03} ms, rule (>= 16.38 ms) says {nominal}, but {when} it held LowDataRateOptimize = {eff}{extra}", t / 1_000_000, (t / 1000) % 1000),
            )
            .with_fp(format!("{fp}/after-history")),
        );
    }
    HV::Ok
}

pub(super) fn run_hist(h: &Hist, kf: &KnownFindings) -> (Option<Outcome>, HV) {
    match catch(|| hist::run(h)) {
        Ok(out) => {
            let v = judge_hist(h, &out, kf);
            (Some(out), v)
        }
        Err(pm) => (None, HV::Fail(panic_failure(h.json("C15"), &pm))),
    }
}

pub(super) fn replay_hist(case: &Value, kf: &KnownFindings) -> Result<(), Failure> {
    let Some(h) = Hist::from_json(case) else {
        return Err(Failure::new("bad-replay", case.clone(), "not a C15 history"));
    };
    match run_hist(&h, kf).1 {
        HV::Fail(f) => Err(f),
        _ => Ok(()),
    }
}

/// the judged modulation request: coding rate and frequency (always a band that admits every bandwidth) vary with the pair
fn modu(sf: usize, bw: usize) -> Mod {
    const F: [u32; 4] = [FREQ, 433_175_000, 915_000_000, 470_300_000];
    Mod { sf, bw, cr: (sf + bw) % 4, freq: F[(sf * 10 + bw) % 4] }
}
/// the same pair requested in the 2.4 GHz band (LR1120/LR1121; the other drivers do not refuse it either)
fn modu_hf(sf: usize, bw: usize) -> Mod {
    const F: [u32; 4] = [2_400_000_000, 2_403_000_000, 2_479_000_000, 2_500_000_000];
    Mod { sf, bw, cr: (sf + bw + 1) % 4, freq: F[(sf + bw) % 4] }
}

/// judged requests per level for one (SF, BW)
fn requests_for(level: usize, sf: usize, bw: usize) -> Vec<Op> {
    let mut v = requests_at(level, sf, bw, modu(sf, bw));
    v.extend(requests_at(level, sf, bw, modu_hf(sf, bw)));
    v
}

fn requests_at(level: usize, sf: usize, bw: usize, m: Mod) -> Vec<Op> {
    match level {
        KIND => vec![Op::KMod { m }],
        LORA => vec![
            Op::Tx { m, power: 14, len: 13 },
            // SF6 needs implicit header on SX127x; harmless elsewhere
            Op::Rx { m, p: Pkt::new(sf == 1, 32).with(bw % 2 == 0, sf % 2 == 0, [8, 0, 65_535, 12][(sf + bw) % 4]), mode: Mode::Single(20), end: RxEnd::Timeout, buf: 256 },
            Op::Cad { m },
        ],
        _ => vec![Op::LwTx { m, power: 14, len: 13 }, Op::LwRx { m, ms: Some(20), end: RxEnd::Timeout, buf: 256 }],
    }
}

/// all judged requests of a level (the random stage indexes into this)
fn all_requests(level: usize) -> Vec<Op> {
    let mut v = vec![];
    for sf in 0..8 {
        for bw in 0..10 {
            v.extend(requests_for(level, sf, bw));
        }
    }
    if level == LORA {
        for bw in 0..10 {
            v.push(Op::Listen { freq: FREQ, bw });
        }
    }
    v
}

fn account(h: &Hist, out: &Option<Outcome>, v: HV, st: &mut Stats, enumerated: bool, min_hash_len: usize) {
    st.eval();
    st.class(&format!("history:{}:{}", hist::LEVELS[h.level], hist::CHIPS[h.chip]));
    st.class(&format!("history:prefix-len:{}", (h.ops.len() - 1).min(9)));
    for f in hist::prefix_features(h) {
        st.class(&format!("history:prefix-has:{f}"));
    }
    if let Some(o) = out {
        if o.prefix_errs.iter().any(|e| e.is_some()) {
            st.class("history:some-prefix-op-returned-an-error");
        }
        if o.power_ons > 1 {
            st.class("history:chip-forgot-its-configuration-after-bring-up");
        }
    }
    let judged = matches!(v, HV::Ok | HV::Tolerated(_) | HV::Fail(_));
    if judged && h.ops.len() > 1 {
        if enumerated {
            st.nt_distinct();
        } else if h.ops.len() > min_hash_len {
            st.nt_hash(hash_value(&h.json("C15")));
        }
    }
    match v {
        HV::Ok => {
            st.class("history:judged");
            if st.want_sample() && h.ops.len() == 3 && hash_value(&h.json("C15")) % 997 == 1 {
                let mut j = h.json("C15");
                if let Some(o) = out {
                    j["ldro_in_effect"] = json!(o.last.air.as_ref().map(|a| a.held.ldro).unwrap_or(o.last.held.ldro));
                    j["decision"] = json!(o.last.decision);
                }
                st.sample(j);
            }
        }
        HV::NotJudged(why) => {
            let err = out.as_ref().and_then(|o| o.setup_err.clone().or(o.last.err.clone())).unwrap_or_default();
            st.class(&format!("history:not-judged:{why}:{}:{}:{err}", hist::LEVELS[h.level], hist::CHIPS[h.chip]))
        }
        HV::Tolerated(id) => st.excluded(id),
        HV::Fail(f) => st.fail(f),
    }
}

pub(super) const RULE: &str = " STATEFUL STAGE (props/hist.rs): the judged (SF, BW) request is the last step of a history executed on ONE driver instance over ONE chip double that forgets like the silicon (SX126x / LR11xx: sleep without retention, NRESET and Reboot lose packet type, RF frequency, modulation and packet parameters, PA settings; SX127x: registers survive sleep, NRESET restores the documented reset values, which are then what the chip holds) and records the configuration in effect when SetTx / SetRx / SetCad (RegOpMode TX / RX / CAD) is commanded; judged is the LowDataRateOptimize value held at that moment (RadioKind level: after set_modulation_params returned) against the 16.38 ms rule for the request of the last step. Chips SX1261, SX1262, SX1276, SX1272, LR1110; levels RadioKind (set_modulation_params after set_channel / set_modulation_params / set_packet_params / set_tx_power / set_sleep warm+cold / reset / init_lora / set_standby / do_tx / do_rx / do_cad), LoRa (prepare_for_tx+tx, prepare_for_rx+rx, prepare_for_cad+cad, listen as judged requests, after prepare_for_tx+tx / prepare_for_rx with rx completed, timed out or never started / listen / cad / rx_switch_channel / sleep warm+cold / init, each with the SAME and with DIFFERENT modulation and packet parameters) and LorawanRadio (tx, setup_rx+rx_single after tx / setup_rx+rx / low_power). The judged request's coding rate, frequency (868.1 / 433.175 / 915 / 470.3 MHz), receive packet parameters (CRC, IQ, preamble 8/0/65535/12) and the board options vary with the pair, and every pair is requested a second time in the 2.4 GHz band (2400 / 2403 / 2479 / 2500 MHz). ENUMERATED: every prefix of depth 0..=2 over that alphabet (15 LoRa-level, 18 RadioKind-level, 7 adapter-level operations built relative to the judged request) for the 12 boundary pairs and the LoRaWAN pairs, depth 0..=1 for all other pairs (thorough: depth 2 for all 80 pairs, depth 3 for the LoRaWAN LDRO pairs at the LoRa level). RANDOM: proptest histories of 1..=8 prefix operations (shrinking) over the same operations plus continuous_wave, enter_standby, duty-cycle and continuous receive modes. One evaluation = one history; non-trivial = the judged request was executed after a non-empty prefix and was judged (enumerated histories are distinct by construction, random ones are counted by hash when longer than every enumerated one).";

pub(super) fn stage(ctx: &mut Ctx) {
    let full = ctx.tier == Tier::Thorough;
    let kf = ctx.kf.clone();
    let seed = ctx.seed;
    // keep room for samples of this stage (the engine keeps the first 8)
    ctx.stats.samples.truncate(4);
    // ---- enumerated prefixes
    ctx.parallel(|ti, n, st| {
        let mut job = 0usize;
        for &chip in HCHIPS.iter() {
            for level in [KIND, LORA, LORAWAN] {
                for sf in 0..8 {
                    for bw in 0..10 {
                        if level == LORAWAN && (sf < 2 || bw < 7) {
                            continue; // LoRaWAN data rates: SF7..SF12 at 125 / 250 / 500 kHz
                        }
                        let hot = boundary_pair(sf, bw) || lorawan_pair(sf, bw);
                        let mut reqs = requests_for(level, sf, bw);
                        if level == LORA && sf == 2 {
                            reqs.push(Op::Listen { freq: FREQ, bw });
                        }
                        for j in reqs {
                            job += 1;
                            if job % n != ti {
                                continue;
                            }
                            let depth = if full {
                                if level == LORA && lorawan_pair(sf, bw) {
                                    3
                                } else {
                                    2
                                }
                            } else if hot {
                                2
                            } else {
                                1
                            };
                            for pre in hist::prefixes(level, &j, depth) {
                                let mut ops = pre;
                                ops.push(j);
                                // board options vary with the pair (LR1110: 5 option bits, the others 3)
                                let board = ((sf * 10 + bw) % if hist::family(chip) == "lr1110" { 32 } else { 8 }) as u8;
                                let h = Hist { chip, board, level, ops };
                                let (out, v) = run_hist(&h, &kf);
                                account(&h, &out, v, st, true, 0);
                            }
                        }
                    }
                }
            }
        }
    });
    // ---- random longer prefixes
    let cases: u32 = if full { 40_000 } else { 1_500 };
    let enumerated_depth = if full { 3 } else { 2 };
    ctx.parallel(|ti, _n, st| {
        let reqs: Vec<Vec<Op>> = [KIND, LORA, LORAWAN].iter().map(|l| all_requests(*l)).collect();
        let strat = (0usize..HCHIPS.len() * 3, 0u8..32, hist::strategy(10_000, 8));
        let f = run_proptest(strat, cases, seed ^ 0xC15_0000 ^ ((ti as u64) << 40), st, |(combo, board, (ri, aops)), st| {
            let chip = HCHIPS[combo % HCHIPS.len()];
            let level = combo / HCHIPS.len();
            let j = reqs[level][ri % reqs[level].len()];
            let h = hist::build(level, chip, *board, &j, aops);
            let (out, v) = run_hist(&h, &kf);
            let fail = if let HV::Fail(f) = &v { Some(f.clone()) } else { None };
            account(&h, &out, v, st, false, enumerated_depth + 1);
            match fail {
                Some(f) => Err(f),
                None => Ok(()),
            }
        });
        if let Some(f) = f {
            st.fail(f);
        }
    });
}
