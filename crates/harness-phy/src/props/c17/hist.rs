//! C17, stateful stage: the judged frequency / TX power / symbol-timeout request is the LAST step of a
//! history on one driver instance (see props/hist.rs). The register values that are decoded are the
//! ones the chip HOLDS at the moment the request puts it on the air (SetTx / SetRx / SetCad, RegOpMode
//! TX / RX / CAD) — for a bare `RadioKind` call, right after the call — not "the last bytes written":
//! a chip that has been through a sleep without retention or a reset since a value was last written
//! holds none.

use super::{freq, power, status, timeout};
use crate::drive::panic_failure;
use crate::props::hist::{self, Hist, Mod, Mode, Op, Outcome, Pkt, RxEnd, KIND, LORA, LORAWAN};
use serde_json::{json, Value};
use verif_core::*;

/// the 8 PA paths of the stateless power sweep as (hist chip index, board options)
const VARIANTS: [(usize, u8); 8] = [(0, 0), (1, 0), (2, 0), (3, 0), (4, 0), (4, 2), (5, 0), (5, 2)];
const FREQS: [u32; 3] = [868_100_000, 923_200_000, 433_175_000];
const POWERS: [i32; 3] = [14, 20, -3];
const SYMBS: [u16; 3] = [5, 300, 1100];
/// band edges and the remaining bands: judged after every prefix of depth 0..=1
const EDGE_FREQS: [u32; 9] = [137_000_000, 169_400_000, 399_999_999, 400_000_000, 470_300_000, 525_000_000, 779_500_000, 902_300_000, 1_020_000_000];
const SUFFIX: &str = "/after-history";
/// chips of the packet-status requests (the PA path does not matter here): SX1261, SX1262, SX1276, SX1272
const STATUS_VARIANTS: [(usize, u8); 4] = [(0, 0), (1, 0), (4, 0), (5, 0)];
/// the two bands of the packet-status requests: SX1276 HF port (offset -157) and LF port (offset -164)
const STATUS_FREQS: [u32; 2] = [868_100_000, 433_175_000];
/// raw packet status (RSSI byte, SNR byte, SX126x signal-RSSI byte): SNR positive / negative / extremes, RSSI 0, 1, 127, 255
const RAW_STATUS: [[u8; 3]; 5] = [[0, 0x14, 88], [1, 0xF3, 0], [127, 0x80, 255], [255, 0x7F, 1], [70, 0xFF, 127]];
const RAW_RSSI: [u8; 4] = [0, 1, 127, 255];

fn variant_of(h: &Hist) -> usize {
    let name = match hist::CHIPS[h.chip] {
        "sx1276" => {
            if h.board & 2 != 0 {
                "sx1276-boost"
            } else {
                "sx1276-rfo"
            }
        }
        "sx1272" => {
            if h.board & 2 != 0 {
                "sx1272-boost"
            } else {
                "sx1272-rfo"
            }
        }
        other => other,
    };
    power::VARIANTS.iter().position(|v| *v == name).expect("C17 histories run on the PA paths of the power sweep")
}
fn freq_chip(h: &Hist) -> &'static str {
    match hist::family(h.chip) {
        "sx126x" => "sx126x",
        _ => hist::CHIPS[h.chip],
    }
}

/// what the judged operation requests: (frequency, power + band, symbol count)
fn requested(j: &Op) -> (Option<u32>, Option<(i64, Option<u32>)>, Option<u32>) {
    match j {
        Op::Tx { m, power, .. } => (Some(m.freq), Some((*power as i64, Some(m.freq))), None),
        Op::LwTx { m, power, .. } => (Some(m.freq), Some((*power as i64, Some(m.freq))), None),
        Op::Rx { m, mode, .. } => (Some(m.freq), None, if let Mode::Single(n) = mode { Some(*n as u32) } else { None }),
        Op::LwRx { m, .. } | Op::Cad { m } => (Some(m.freq), None, None),
        Op::Listen { freq, .. } | Op::Switch { freq } | Op::KChannel { freq } => (Some(*freq), None, None),
        Op::KPower { power, m, .. } => (None, Some((*power as i64, m.map(|m| m.freq))), None),
        Op::KDoRx { mode: Mode::Single(n) } => (None, None, Some(*n as u32)),
        _ => (None, None, None),
    }
}

/// the packet-status part of a judged operation: (raw packet status, raw instantaneous RSSI)
fn requested_status(j: &Op) -> (Option<[u8; 3]>, Option<u8>) {
    match j {
        Op::RxStat { raw, .. } | Op::Complete { raw, .. } | Op::KStatus { raw, .. } | Op::LwRxStat { raw, .. } => (Some(*raw), None),
        Op::Rssi { raw, .. } | Op::KRssi { raw, .. } => (None, Some(*raw)),
        _ => (None, None),
    }
}

/// frequency (Hz) the SX127x double holds in RegFrf: f = Frf * 32 MHz / 2^19
fn held_hz_127(word: Option<u32>) -> Option<u32> {
    word.map(|w| ((w as u64 * 32_000_000) >> 19) as u32)
}

/// Packet status / instantaneous RSSI reported by the judged operation against the datasheet conversion of the raw
/// bytes — for the SX1276 with the offset of the port that serves the frequency the chip HOLDS in RegFrf at that moment.
fn judge_status(h: &Hist, out: &Outcome) -> HV {
    let (raw, raw_inst) = requested_status(h.judged());
    let last = &out.last;
    let chip = hist::CHIPS[h.chip];
    let fam = hist::family(h.chip);
    let hz = if fam == "sx127x" { held_hz_127(last.held.freq_word) } else { None };
    if chip == "sx1276" {
        // between the documented bands (525 .. 779 MHz) the port, and with it the offset, is not defined
        match hz {
            Some(f) if f > 525_000_000 && f < 779_000_000 => return HV::NotJudged("status:frequency-between-the-sx1276-bands"),
            None => return HV::NotJudged("status:no-frequency-held"),
            _ => {}
        }
    }
    let case = || {
        let mut c = h.json("C17");
        c["held_frequency_hz"] = json!(hz);
        c
    };
    let at = match hz {
        Some(f) => format!(" with {f} Hz in the chip's frequency registers"),
        None => String::new(),
    };
    if let Some(raw) = raw {
        let Some((rssi, snr)) = last.status else {
            return HV::NotJudged("status:judged-op-refused-or-failed");
        };
        let r = if fam == "sx126x" { status::judge126_at(&case, raw, rssi, snr, SUFFIX) } else { status::judge127_at(&case, chip, hz.unwrap_or(0), raw[1], raw[0], rssi, snr, SUFFIX) };
        if let Err(mut e) = r {
            e.detail = format!("{} as the last step of the history{at}: {}", hist::op_name(h.judged()), e.detail);
            return HV::Fail(e);
        }
    }
    if let Some(raw) = raw_inst {
        let Some(v) = last.rssi_inst else {
            return HV::NotJudged("status:judged-op-refused-or-failed");
        };
        let (ok, want) = if fam == "sx126x" { ((2 * v + raw as i64).abs() <= 2, -(raw as i64) / 2) } else { ((v - (status::offset127(chip, hz.unwrap_or(0)) + raw as i64)).abs() <= 1, status::offset127(chip, hz.unwrap_or(0)) + raw as i64) };
        if !ok {
            return HV::Fail(
                Failure::new("rssi-inst", case(), format!("{} as the last step of the history{at}: raw instantaneous RSSI {raw}: datasheet {want} dBm, reported {v} dBm", hist::op_name(h.judged())))
                    .with_fp(format!("rssi-inst/{}{SUFFIX}", if fam == "sx126x" { "sx126x" } else { chip })),
            );
        }
    }
    HV::Ok(1)
}

pub enum HV {
    Ok(u32),
    NotJudged(&'static str),
    Fail(Failure),
}

pub fn judge_hist(h: &Hist, out: &Outcome) -> HV {
    if requested_status(h.judged()) != (None, None) {
        if out.setup_err.is_some() {
            return HV::NotJudged("driver-bring-up-failed");
        }
        return judge_status(h, out);
    }
    let (f, p, n) = requested(h.judged());
    if f.is_none() && p.is_none() && n.is_none() {
        return HV::NotJudged("judged-op-requests-nothing-decodable");
    }
    if out.setup_err.is_some() {
        return HV::NotJudged("driver-bring-up-failed");
    }
    let last = &out.last;
    let (held, when) = match (&last.air, &last.err) {
        (Some(a), _) => (&a.held, format!("when the chip was put on the air ({:?})", a.kind)),
        (None, None) => (&last.held, "after the call returned".to_string()),
        (None, Some(_)) => return HV::NotJudged("judged-op-refused-or-failed"),
    };
    let case = || {
        let mut c = h.json("C17");
        c["observed"] = json!(when);
        c
    };
    let mut judged = 0u32;
    if let Some(hz) = f {
        judged += 1;
        if let Err(mut e) = freq::judge_word(freq_chip(h), hz, held.freq_word, &case, SUFFIX) {
            e.detail = format!("{} of {hz} Hz as the last step of the history, {when}: {}", hist::op_name(h.judged()), e.detail);
            return HV::Fail(e);
        }
    }
    if let Some((dbm, band)) = p {
        // the PA settings only matter to an operation that transmits (or to the bare set_tx_power call)
        let tx = last.air.as_ref().map(|a| a.kind == crate::drive::AirKind::Tx).unwrap_or(true);
        if tx {
            judged += 1;
            let obs = if hist::family(h.chip) == "sx126x" {
                power::Obs::P126 { pa: held.pa126, tx: held.txp126 }
            } else {
                match held.pa127 {
                    Some((c, d)) => power::Obs::P127 { pa_config: c, pa_dac: d, written: true },
                    None => power::Obs::P127 { pa_config: 0, pa_dac: 0, written: false },
                }
            };
            let j = power::Judged { variant: variant_of(h), dbm, band, case: &case, fp_suffix: SUFFIX };
            if let Err(mut e) = power::judge_parts(&j, &obs) {
                e.detail = format!("{} with {dbm} dBm as the last step of the history, {when}: {}", hist::op_name(h.judged()), e.detail);
                return HV::Fail(e);
            }
        }
    }
    if let Some(n) = n {
        let rx = last.air.as_ref().map(|a| a.kind == crate::drive::AirKind::Rx).unwrap_or(false);
        if rx {
            judged += 1;
            let chip = if hist::family(h.chip) == "sx126x" { "sx126x" } else { hist::CHIPS[h.chip] };
            if let Err(mut e) = timeout::judge_symb_at(chip, n, Ok(held.symb.clone()), &case, SUFFIX) {
                e.detail = format!("{} with a {n}-symbol timeout as the last step of the history, {when}: {}", hist::op_name(h.judged()), e.detail);
                return HV::Fail(e);
            }
        }
    }
    HV::Ok(judged)
}

pub fn run_hist(h: &Hist) -> (Option<Outcome>, HV) {
    match catch(|| hist::run(h)) {
        Ok(out) => {
            let v = judge_hist(h, &out);
            (Some(out), v)
        }
        Err(pm) => (None, HV::Fail(panic_failure(h.json("C17"), &pm))),
    }
}

pub fn replay(case: &Value) -> Result<(), Failure> {
    let Some(h) = Hist::from_json(case) else {
        return Err(Failure::new("bad-replay", case.clone(), "not a C17 history"));
    };
    match run_hist(&h).1 {
        HV::Fail(f) => Err(f),
        _ => Ok(()),
    }
}

fn modu(freq: u32) -> Mod {
    Mod { sf: 4, bw: 7, cr: (freq / 100_000 % 4) as usize, freq }
}

/// requests at the band edges (one power, one symbol count)
fn edge_requests(level: usize) -> Vec<Op> {
    let mut v = vec![];
    for &f in EDGE_FREQS.iter() {
        let m = modu(f);
        match level {
            KIND => v.push(Op::KChannel { freq: f }),
            LORA => {
                v.push(Op::Tx { m, power: 14, len: 13 });
                v.push(Op::Rx { m, p: Pkt::new(false, 255).with(f % 200_000 == 0, f % 300_000 == 0, 12), mode: Mode::Single(5), end: RxEnd::Timeout, buf: 256 });
                v.push(Op::Listen { freq: f, bw: 7 });
            }
            _ => v.push(Op::LwTx { m, power: 14, len: 13 }),
        }
    }
    v
}

fn requests(level: usize) -> Vec<Op> {
    let mut v = vec![];
    for &f in FREQS.iter() {
        let m = modu(f);
        match level {
            KIND => {
                v.push(Op::KChannel { freq: f });
                for &w in POWERS.iter() {
                    v.push(Op::KPower { power: w, m: Some(m), tx_prep: true });
                }
            }
            LORA => {
                for &w in POWERS.iter() {
                    v.push(Op::Tx { m, power: w, len: 13 });
                }
                for &n in SYMBS.iter() {
                    v.push(Op::Rx { m, p: Pkt::new(false, 255), mode: Mode::Single(n), end: RxEnd::Timeout, buf: 256 });
                }
                v.push(Op::Cad { m });
                v.push(Op::Listen { freq: f, bw: 7 });
            }
            _ => {
                for &w in POWERS.iter() {
                    v.push(Op::LwTx { m, power: w as i8, len: 13 });
                }
                v.push(Op::LwRx { m, ms: Some(20), end: RxEnd::Timeout, buf: 256 });
            }
        }
    }
    if level == KIND {
        for &n in SYMBS.iter() {
            v.push(Op::KDoRx { mode: Mode::Single(n) });
        }
    }
    v
}

/// packet-status requests of a level, in both bands
fn status_requests(level: usize) -> Vec<Op> {
    let mut v = vec![];
    for (fi, &f) in STATUS_FREQS.iter().enumerate() {
        let m = modu(f);
        let p = Pkt::new(false, 255);
        for (ri, &raw) in RAW_STATUS.iter().enumerate() {
            match level {
                KIND => v.push(Op::KStatus { m, raw }),
                LORA => {
                    let via = ((ri + fi) % 2) as u8;
                    v.push(Op::RxStat { m, p, mode: if ri % 2 == 0 { Mode::Single(20) } else { Mode::Continuous }, raw, via });
                    v.push(Op::Complete { m, p, raw, via: 1 - via });
                }
                _ => v.push(Op::LwRxStat { m, ms: if (ri + fi) % 2 == 0 { Some(20) } else { None }, raw }),
            }
        }
        for &raw in RAW_RSSI.iter() {
            match level {
                KIND => v.push(Op::KRssi { m, raw }),
                LORA => v.push(Op::Rssi { m, raw }),
                _ => {}
            }
        }
    }
    v
}

/// does the prefix contain an operation in the other band than the one the chip holds at the end? (evidence class)
fn band_class(h: &Hist, out: &Option<Outcome>) -> &'static str {
    let hf = |f: u32| f > 600_000_000;
    let held = match out {
        Some(o) if hist::family(h.chip) == "sx127x" => held_hz_127(o.last.held.freq_word),
        _ => None,
    };
    let (m, _, _) = hist::context(h.judged());
    let end_band = hf(held.unwrap_or(m.freq));
    let freq_of = |o: &Op| -> Option<u32> {
        match o {
            Op::Tx { m, .. } | Op::Rx { m, .. } | Op::Rx2 { m, .. } | Op::Cad { m } | Op::Cw { m, .. } | Op::KMod { m } | Op::KDoCad { m } | Op::LwTx { m, .. } | Op::LwRx { m, .. } | Op::LwRx2 { m, .. } => Some(m.freq),
            Op::Listen { freq, .. } | Op::Switch { freq } | Op::KChannel { freq } => Some(*freq),
            _ => None,
        }
    };
    if h.ops[..h.ops.len() - 1].iter().filter_map(freq_of).any(|f| hf(f) != end_band) {
        "cross-band"
    } else {
        "same-band"
    }
}

fn account(h: &Hist, out: &Option<Outcome>, v: HV, st: &mut Stats, enumerated: bool, min_hash_len: usize) {
    st.eval();
    st.class(&format!("history:{}:{}", hist::LEVELS[h.level], power::VARIANTS[variant_of(h)]));
    st.class(&format!("history:prefix-len:{}", (h.ops.len() - 1).min(9)));
    st.class(&format!("history:judged-op:{}", hist::op_name(h.judged())));
    for f in hist::prefix_features(h) {
        st.class(&format!("history:prefix-has:{f}"));
    }
    if let Some(o) = out {
        if o.prefix_errs.iter().any(|e| e.is_some()) {
            st.class("history:some-prefix-op-returned-an-error");
        }
        if o.power_ons > 1 {
            st.class("history:chip-forgot-its-configuration-after-bring-up");
        }
    }
    if !matches!(v, HV::NotJudged(_)) && h.ops.len() > 1 {
        if enumerated {
            st.nt_distinct();
        } else if h.ops.len() > min_hash_len {
            st.nt_hash(hash_value(&h.json("C17")));
        }
    }
    if requested_status(h.judged()) != (None, None) {
        let verdict = match &v {
            HV::NotJudged(_) => "not-judged",
            _ => "judged",
        };
        st.class(&format!("status/{}/{}/{}/{verdict}", hist::CHIPS[h.chip], hist::LEVELS[h.level], band_class(h, out)));
        if hist::CHIPS[h.chip] == "sx1276" && verdict == "judged" {
            if let Some(f) = out.as_ref().and_then(|o| held_hz_127(o.last.held.freq_word)) {
                st.class(&format!("status/sx1276/port:{}", if f >= 779_000_000 { "HF(-157)" } else { "LF(-164)" }));
            }
        }
    }
    match v {
        HV::Ok(k) => {
            st.class_n("history:judged-quantities", k as u64);
            if st.samples.len() < 7 && h.ops.len() == 3 && hash_value(&h.json("C17")) % 499 == 1 {
                let mut j = h.json("C17");
                if let Some(o) = out {
                    let held = o.last.air.as_ref().map(|a| &a.held).unwrap_or(&o.last.held);
                    j["in_effect"] = json!({"freq_word":held.freq_word,"pa126":held.pa126,"txp126":held.txp126,"pa127":held.pa127,"symbols":held.symb.iter().map(|(w, n)| json!({"what":w,"symbols":n})).collect::<Vec<_>>()});
                }
                st.sample(j);
            }
        }
        HV::NotJudged(why) => {
            let err = out.as_ref().and_then(|o| o.setup_err.clone().or(o.last.err.clone())).unwrap_or_default();
            st.class(&format!("history:not-judged:{why}:{}:{}:{err}", hist::LEVELS[h.level], hist::CHIPS[h.chip]))
        }
        HV::Fail(f) => st.fail(f),
    }
}

pub const RULE: &str = " STATEFUL STAGE (props/hist.rs; this part uses VERIF_SEED for its random histories): the judged request is the last step of a history executed on ONE driver instance over ONE chip double that forgets like the silicon (SX126x: a sleep without retention and NRESET lose RF frequency, PA configuration, TX parameters, symbol timeout, modulation and packet parameters; SX127x: registers survive sleep, NRESET restores the documented reset values, which are then what the chip holds) and records the configuration in effect when SetTx / SetRx / SetCad (RegOpMode TX / RX / CAD) is commanded; that state is decoded with the same datasheet oracles as above for the request of the last step: synthesiser word vs requested frequency, PA settings vs requested power at SetTx, symbol timeout vs requested count at SetRx. 8 PA paths (SX1261, SX1262, STM32WL HP/LP, SX1276 RFO/PA_BOOST, SX1272 RFO/PA_BOOST); frequencies 868.1 / 923.2 / 433.175 MHz, powers 14 / 20 / -3 dBm, symbol counts 5 / 300 / 1100; levels RadioKind (set_channel, set_tx_power_and_ramp_time, do_rx judged after set_channel / set_modulation_params / set_packet_params / set_tx_power / set_sleep warm+cold / reset / init_lora / set_standby / do_tx / do_rx / do_cad), LoRa (prepare_for_tx+tx, prepare_for_rx+rx, prepare_for_cad+cad, listen judged after the same kinds of operation with the SAME and with DIFFERENT frequency / power / parameters, receptions completed, timed out or never started, rx_switch_channel, sleep warm+cold, init) and LorawanRadio (tx, setup_rx+rx_single judged after tx / setup_rx+rx / low_power). ENUMERATED: every prefix of depth 0..=2 over that alphabet for every judged request (thorough: depth 3 at the LoRa level for 868.1 MHz), and depth 0..=1 for requests at the band edges 137 / 169.4 / 399.999999 / 400.0 / 470.3 / 525 / 779.5 / 902.3 / 1020 MHz; coding rate, rx_boost and TCXO vary with the request. Every alphabet also holds operations in the OTHER frequency band (433.175 <-> 868.1 MHz): rx_switch_channel, prepare_for_tx+tx, prepare_for_rx, listen, cad (LoRa), set_channel and set_modulation_params (RadioKind), tx and setup_rx+rx (adapter). PACKET STATUS as the judged request (SX1261, SX1262, SX1276, SX1272; both bands): raw status bytes {(0, +5 dB), (1, -3.25 dB), (127, -32 dB), (255, +31.75 dB), (70, -0.25 dB)} (SX126x: with signal-RSSI bytes 88 / 0 / 255 / 1 / 127) and raw instantaneous RSSI 0 / 1 / 127 / 255 are put into the chip double and the PacketStatus / RxQuality / get_rssi value reported by RadioKind get_rx_packet_status / get_rssi, by LoRa prepare_for_rx+rx and start_rx+get_rx_result, by a reception that completes NOW on whatever receive operation the history left running (complete_rx / get_rx_result without preparing or starting anything: e.g. after prepare_for_rx on one band + rx_switch_channel to the other), by LoRa get_rssi, and by LorawanRadio setup_rx+rx_single / rx_continuous is judged with the status oracle above (1 dB) for the frequency the chip double HOLDS in its frequency registers at that moment (SX1276: LF offset -164 up to 525 MHz, HF offset -157 from 779 MHz, not judged in between; SX1272 -139; SX126x no frequency dependence), after every prefix of depth 0..=2; evidence classes status/<chip>/<level>/{cross-band,same-band}/{judged,not-judged} and status/sx1276/port:*. RANDOM: proptest histories of 1..=8 prefix operations (shrinking), also with continuous_wave, enter_standby, duty-cycle / continuous receive modes. Non-trivial = judged after a non-empty prefix (enumerated: distinct by construction; random: by hash when longer than every enumerated history).";

pub fn stage(ctx: &mut Ctx) {
    let full = ctx.tier == Tier::Thorough;
    let seed = ctx.seed;
    // keep room for samples of this stage (the engine keeps the first 8)
    ctx.stats.samples.truncate(4);
    ctx.parallel(|ti, n, st| {
        let mut job = 0usize;
        for &(chip, board) in VARIANTS.iter() {
            for level in [KIND, LORA, LORAWAN] {
                let main = requests(level);
                let n_main = main.len();
                for (ji, j) in main.into_iter().chain(edge_requests(level)).enumerate() {
                    job += 1;
                    if job % n != ti {
                        continue;
                    }
                    let (m, _, _) = hist::context(&j);
                    let depth = if ji >= n_main {
                        1
                    } else if full && level == LORA && m.freq == FREQS[0] {
                        3
                    } else {
                        2
                    };
                    // rx_boost and TCXO vary with the request (the PA pin / DC-DC bit belongs to the PA path)
                    let board = board | (ji as u8 & 1) | ((ji as u8 >> 1) & 1) << 2;
                    for pre in hist::prefixes_with(level, &j, depth, true) {
                        let mut ops = pre;
                        ops.push(j);
                        let h = Hist { chip, board, level, ops };
                        let (out, v) = run_hist(&h);
                        account(&h, &out, v, st, true, 0);
                    }
                }
            }
        }
        // packet status / instantaneous RSSI as the judged request
        for &(chip, board) in STATUS_VARIANTS.iter() {
            for level in [KIND, LORA, LORAWAN] {
                for (ji, j) in status_requests(level).into_iter().enumerate() {
                    job += 1;
                    if job % n != ti {
                        continue;
                    }
                    let board = board | (ji as u8 & 1) | ((ji as u8 >> 1) & 1) << 2;
                    for pre in hist::prefixes_with(level, &j, 2, true) {
                        let mut ops = pre;
                        ops.push(j);
                        let h = Hist { chip, board, level, ops };
                        let (out, v) = run_hist(&h);
                        account(&h, &out, v, st, true, 0);
                    }
                }
            }
        }
    });
    let cases: u32 = if full { 40_000 } else { 1_500 };
    let enumerated_depth = if full { 3 } else { 2 };
    ctx.parallel(|ti, _n, st| {
        let reqs: Vec<Vec<Op>> = [KIND, LORA, LORAWAN].iter().map(|l| requests(*l).into_iter().chain(edge_requests(*l)).chain(status_requests(*l)).collect()).collect();
        let strat = (0usize..VARIANTS.len() * 3, 0u8..4, hist::strategy_cross(10_000, 8));
        let f = run_proptest(strat, cases, seed ^ 0xC17_0000 ^ ((ti as u64) << 40), st, |(combo, opt, (ri, aops)), st| {
            let (chip, board) = VARIANTS[combo % VARIANTS.len()];
            let board = board | (opt & 1) | (opt & 2) << 1;
            let level = combo / VARIANTS.len();
            let j = reqs[level][ri % reqs[level].len()];
            let h = hist::build(level, chip, board, &j, aops);
            let (out, v) = run_hist(&h);
            let fail = if let HV::Fail(f) = &v { Some(f.clone()) } else { None };
            account(&h, &out, v, st, false, enumerated_depth + 1);
            match fail {
                Some(f) => Err(f),
                None => Ok(()),
            }
        });
        if let Some(f) = f {
            st.fail(f);
        }
    });
}
