//! C17 / RSSI and SNR: reported values agree with the datasheet conversion of the raw status bytes to
//! within 1 dB, for every raw value, without panicking.
//!  SX126x GetPacketStatus (0x14): RssiPkt -> -RssiPkt/2 dBm; SnrPkt (two's complement) -> SnrPkt/4 dB;
//!         GetRssiInst (0x15): -RssiInst/2 dBm.                                   (datasheet 13.5.3, 13.5.4)
//!  SX127x RegPktSnrValue (0x19) two's complement /4; RegPktRssiValue (0x1A), RegRssiValue (0x1B):
//!         SX1276 (datasheet 5.5.5): offset -157 (HF port) / -164 (LF port); packet strength
//!         offset + 16/15*PacketRssi when SNR >= 0, offset + PacketRssi + PacketSnr*0.25 when SNR < 0;
//!         SX1272 (datasheet 5.5.5): offset -139.
//!  Deliberate tolerance (two roundings compose, and Semtech's own drivers apply the 16/15 slope in both
//!  branches): for SNR < 0 the reported RSSI may be within 1 dB of the formula with or without the slope and
//!  with the SNR term either exact (PacketSnr/4) or as reported (already rounded).

use crate::drive::chip126x::{IRQ_RX_DONE as IRQ126_RX_DONE, STATUS_OK};
use crate::drive::chip127x::{Kind, IRQ_RX_DONE as IRQ127_RX_DONE, REG_PKT_RSSI_VALUE, REG_PKT_SNR_VALUE, REG_RSSI_VALUE};
use crate::drive::rig;
use crate::drive::{block_on, panic_failure, Delay};
use lora_modulation::{Bandwidth, BaseBandModulationParams, CodingRate, SpreadingFactor};
use lora_phy::lorawan_radio::LorawanRadio;
use lora_phy::mod_params::RadioError;
use lora_phy::mod_traits::RadioKind;
use lora_phy::sx126x::Sx1262;
use lora_phy::LoRa;
use lorawan_device::async_device::radio::{PhyRxTx, RfConfig, RxConfig, RxMode as LwRxMode, RxStatus};
use serde_json::{json, Value};
use verif_core::*;

pub const KF_SNR: &str = "C17-sx126x-snr-overflow";
pub const FP_SNR_PANIC: &str = "panic: attempt to add with overflow @ lora-phy/src/sx126x/mod.rs";

pub const FREQS_1276: [u32; 9] = [137_000_000, 169_400_000, 433_175_000, 490_000_000, 525_000_000, 862_000_000, 868_100_000, 915_000_000, 1_020_000_000];

fn j126(path: &str, raw: [u8; 3], status: u8) -> Value {
    json!({"kind":"pktstatus","chip":"sx126x","path":path,"raw":raw,"status":status})
}
fn j127(chip: &str, path: &str, snr: u8, rssi: u8, hz: u32) -> Value {
    json!({"kind":"pktstatus","chip":chip,"path":path,"snr_raw":snr,"rssi_raw":rssi,"freq_hz":hz})
}

// ------------------------------------------------------------------------------------------ SX126x

fn judge126(cj: &dyn Fn() -> Value, raw: [u8; 3], rssi: i64, snr: i64) -> Result<(), Failure> {
    judge126_at(cj, raw, rssi, snr, "")
}

pub fn judge126_at(cj: &dyn Fn() -> Value, raw: [u8; 3], rssi: i64, snr: i64, sfx: &str) -> Result<(), Failure> {
    let s = raw[1] as i8 as i64;
    if (2 * rssi + raw[0] as i64).abs() > 2 {
        return Err(Failure::new("pktstatus", cj(), format!("RssiPkt raw {} = -{}.{} dBm, reported {rssi} dBm", raw[0], raw[0] / 2, (raw[0] % 2) * 5)).with_fp(format!("pktstatus-rssi/sx126x{sfx}")));
    }
    if (4 * snr - s).abs() > 4 {
        return Err(Failure::new("pktstatus", cj(), format!("SnrPkt raw {} = {} quarter-dB, reported {snr} dB", raw[1], s)).with_fp(format!("pktstatus-snr/sx126x{sfx}")));
    }
    Ok(())
}

fn tolerate_snr(kf: &KnownFindings, raw: [u8; 3], f: &Failure) -> bool {
    (raw[1] == 126 || raw[1] == 127) && f.fingerprint == FP_SNR_PANIC && kf.is_active(KF_SNR)
}

/// reusable get_rx_packet_status closure (RadioKind level)
fn with126(f: &mut dyn FnMut(&mut dyn FnMut([u8; 3], u8) -> Result<Result<(i64, i64), RadioError>, String>)) {
    let c = rig::new126();
    let (mut r, _) = rig::sx126x(&c, Sx1262, false);
    let mut go = |raw: [u8; 3], status: u8| {
        {
            let mut ch = c.borrow_mut();
            ch.pkt_status = raw;
            ch.status = status;
        }
        catch(|| block_on(r.get_rx_packet_status()).map(|p| (p.rssi as i64, p.snr as i64)))
    };
    f(&mut go)
}

fn case126(go: &mut dyn FnMut([u8; 3], u8) -> Result<Result<(i64, i64), RadioError>, String>, raw: [u8; 3], status: u8, kf: &KnownFindings) -> Result<Option<&'static str>, Failure> {
    let cj = || j126("kind", raw, status);
    match go(raw, status) {
        Err(p) => {
            let f = panic_failure(cj(), &p);
            if tolerate_snr(kf, raw, &f) {
                Ok(Some(KF_SNR))
            } else {
                Err(f)
            }
        }
        Ok(Err(e)) => {
            // an error is acceptable only when the chip's command status says so (datasheet table 13-76: 3 = timeout,
            // 4 = processing error, 5 = failure to execute); other status values are not judged
            let cmd = (status >> 1) & 7;
            if status == STATUS_OK {
                Err(Failure::new("pktstatus", cj(), format!("Err({e:?}) although the chip answered with a good status")).with_fp("pktstatus-refused/sx126x"))
            } else {
                let _ = cmd;
                Ok(None)
            }
        }
        Ok(Ok((rssi, snr))) => judge126(&cj, raw, rssi, snr).map(|_| None),
    }
}

/// through LorawanRadio::rx_single (LoRa::rx -> complete_rx -> RxQuality)
fn adapter126(raw: [u8; 3], kf: &KnownFindings) -> Result<Option<&'static str>, Failure> {
    let cj = || j126("lorawan-rx_single", raw, STATUS_OK);
    let r = catch(|| -> Result<(i64, i64), String> {
        let c = rig::new126();
        {
            let mut ch = c.borrow_mut();
            ch.pkt_status = raw;
            ch.irq_on_rx = IRQ126_RX_DONE;
            ch.rx_len = 4;
        }
        let lora = block_on(LoRa::new(rig::sx126x(&c, Sx1262, false).0, true, Delay)).map_err(|e| format!("{e:?}"))?;
        let mut lw: LorawanRadio<_, Delay, 22> = lora.into();
        let rf = RfConfig { frequency: 868_100_000, bb: BaseBandModulationParams::new(SpreadingFactor::_7, Bandwidth::_125KHz, CodingRate::_4_5), max_payload_len: 255 };
        block_on(lw.setup_rx(RxConfig { rf, mode: LwRxMode::Single { ms: 10 } })).map_err(|e| format!("setup_rx {e:?}"))?;
        let mut buf = [0u8; 255];
        match block_on(lw.rx_single(&mut buf)) {
            Ok(RxStatus::Rx(_, q)) => Ok((q.rssi() as i64, q.snr() as i64)),
            Ok(RxStatus::RxTimeout) => Err("rx_single reported a timeout although RxDone was raised".into()),
            Err(e) => Err(format!("rx_single {e:?}")),
        }
    });
    match r {
        Err(p) => {
            let f = panic_failure(cj(), &p);
            if tolerate_snr(kf, raw, &f) {
                Ok(Some(KF_SNR))
            } else {
                Err(f)
            }
        }
        Ok(Err(e)) => Err(Failure::new("pktstatus", cj(), e).with_fp("pktstatus-error/sx126x")),
        Ok(Ok((rssi, snr))) => judge126(&cj, raw, rssi, snr).map(|_| None),
    }
}

// ------------------------------------------------------------------------------------------ SX127x

pub fn offset127(chip: &str, hz: u32) -> i64 {
    if chip == "sx1272" {
        -139
    } else if hz >= 779_000_000 {
        -157
    } else {
        -164
    }
}

fn judge127(cj: &dyn Fn() -> Value, chip: &str, hz: u32, snr_raw: u8, rssi_raw: u8, rssi: i64, snr: i64) -> Result<(), Failure> {
    judge127_at(cj, chip, hz, snr_raw, rssi_raw, rssi, snr, "")
}

pub fn judge127_at(cj: &dyn Fn() -> Value, chip: &str, hz: u32, snr_raw: u8, rssi_raw: u8, rssi: i64, snr: i64, sfx: &str) -> Result<(), Failure> {
    let s = snr_raw as i8 as i64;
    let r = rssi_raw as i64;
    let off = offset127(chip, hz);
    if (4 * snr - s).abs() > 4 {
        return Err(Failure::new("pktstatus", cj(), format!("PacketSnr raw {snr_raw} = {s} quarter-dB, reported {snr} dB")).with_fp(format!("pktstatus-snr/{chip}{sfx}")));
    }
    // units of 1/60 dB
    let mut cands: Vec<i64> = vec![];
    if s >= 0 {
        cands.push(60 * off + 64 * r);
    } else {
        for base in [60 * off + 64 * r, 60 * off + 60 * r] {
            cands.push(base + 15 * s);
            cands.push(base + 60 * snr.min(0));
        }
    }
    if cands.iter().any(|c| (60 * rssi - c).abs() <= 60) {
        return Ok(());
    }
    Err(Failure::new("pktstatus", cj(), format!("PacketRssi raw {rssi_raw}, PacketSnr raw {snr_raw} ({s}/4 dB), offset {off}: datasheet value {:.2} dBm, reported {rssi} dBm", cands[0] as f64 / 60.0))
        .with_fp(format!("pktstatus-rssi/{chip}/{}{sfx}", if s >= 0 { "snr>=0" } else { "snr<0" })))
}

fn sweep127(chip: &'static str, hz: u32, st: &mut Stats) {
    let kind = if chip == "sx1276" { Kind::Sx1276 } else { Kind::Sx1272 };
    let c = rig::new127(kind);
    macro_rules! body {
        ($r:expr) => {{
            let mut r = $r;
            if let Err(e) = block_on(r.set_channel(hz)) {
                st.fail(Failure::new("pktstatus", j127(chip, "kind", 0, 0, hz), format!("set_channel Err({e:?})")).with_fp(format!("pktstatus-error/{chip}")));
                return;
            }
            for snr_raw in 0..=255u8 {
                for rssi_raw in 0..=255u8 {
                    st.eval();
                    if snr_raw >= 128 {
                        st.nt_distinct();
                    }
                    {
                        let mut ch = c.borrow_mut();
                        ch.regs[REG_PKT_SNR_VALUE as usize] = snr_raw;
                        ch.regs[REG_PKT_RSSI_VALUE as usize] = rssi_raw;
                    }
                    let cj = || j127(chip, "kind", snr_raw, rssi_raw, hz);
                    match catch(|| block_on(r.get_rx_packet_status()).map(|p| (p.rssi as i64, p.snr as i64))) {
                        Err(p) => st.fail(panic_failure(cj(), &p)),
                        Ok(Err(e)) => st.fail(Failure::new("pktstatus", cj(), format!("Err({e:?})")).with_fp(format!("pktstatus-error/{chip}"))),
                        Ok(Ok((rssi, snr))) => {
                            if let Err(f) = judge127(&cj, chip, hz, snr_raw, rssi_raw, rssi, snr) {
                                st.fail(f);
                            } else if st.want_sample() && snr_raw == 0xF3 && rssi_raw == 61 {
                                let mut j = cj();
                                j["reported"] = json!({"rssi":rssi,"snr":snr});
                                st.sample(j);
                            }
                        }
                    }
                }
                // instantaneous RSSI: offset + RegRssiValue
                let raw = snr_raw;
                st.eval();
                c.borrow_mut().regs[REG_RSSI_VALUE as usize] = raw;
                let cj = || json!({"kind":"rssi","chip":chip,"raw":raw,"freq_hz":hz});
                match catch(|| block_on(r.get_rssi())) {
                    Err(p) => st.fail(panic_failure(cj(), &p)),
                    Ok(Err(e)) => st.fail(Failure::new("rssi-inst", cj(), format!("Err({e:?})")).with_fp(format!("rssi-inst-error/{chip}"))),
                    Ok(Ok(v)) => {
                        if (v as i64 - (offset127(chip, hz) + raw as i64)).abs() > 1 {
                            st.fail(Failure::new("rssi-inst", cj(), format!("RegRssiValue {raw}: datasheet {} dBm, reported {v} dBm", offset127(chip, hz) + raw as i64)).with_fp(format!("rssi-inst/{chip}")));
                        }
                    }
                }
            }
            st.class_n(&format!("pktstatus:{chip}"), 65_536);
        }};
    }
    if kind == Kind::Sx1276 {
        body!(rig::sx1276(&c, false, false).0)
    } else {
        body!(rig::sx1272(&c, false, false).0)
    }
}

fn one127(chip: &str, path: &str, hz: u32, snr_raw: u8, rssi_raw: u8) -> Result<(), Failure> {
    let kind = if chip == "sx1276" { Kind::Sx1276 } else { Kind::Sx1272 };
    let cj = || j127(chip, path, snr_raw, rssi_raw, hz);
    let r = catch(|| -> Result<(i64, i64), String> {
        let c = rig::new127(kind);
        {
            let mut ch = c.borrow_mut();
            ch.regs[REG_PKT_SNR_VALUE as usize] = snr_raw;
            ch.regs[REG_PKT_RSSI_VALUE as usize] = rssi_raw;
            ch.irq_on_rx = IRQ127_RX_DONE;
        }
        fn kind_level<RK: RadioKind>(mut r: RK, hz: u32) -> Result<(i64, i64), String> {
            block_on(r.set_channel(hz)).map_err(|e| format!("{e:?}"))?;
            block_on(r.get_rx_packet_status()).map(|p| (p.rssi as i64, p.snr as i64)).map_err(|e| format!("{e:?}"))
        }
        fn adapter<RK: RadioKind>(r: RK, hz: u32) -> Result<(i64, i64), String> {
            let lora = block_on(LoRa::new(r, true, Delay)).map_err(|e| format!("{e:?}"))?;
            let mut lw: LorawanRadio<RK, Delay, 22> = lora.into();
            let rf = RfConfig { frequency: hz, bb: BaseBandModulationParams::new(SpreadingFactor::_7, Bandwidth::_125KHz, CodingRate::_4_5), max_payload_len: 255 };
            block_on(lw.setup_rx(RxConfig { rf, mode: LwRxMode::Single { ms: 10 } })).map_err(|e| format!("setup_rx {e:?}"))?;
            let mut buf = [0u8; 255];
            match block_on(lw.rx_single(&mut buf)) {
                Ok(RxStatus::Rx(_, q)) => Ok((q.rssi() as i64, q.snr() as i64)),
                Ok(RxStatus::RxTimeout) => Err("rx_single reported a timeout although RxDone was raised".into()),
                Err(e) => Err(format!("rx_single {e:?}")),
            }
        }
        match (kind, path) {
            (Kind::Sx1276, "kind") => kind_level(rig::sx1276(&c, false, false).0, hz),
            (Kind::Sx1272, "kind") => kind_level(rig::sx1272(&c, false, false).0, hz),
            (Kind::Sx1276, _) => adapter(rig::sx1276(&c, false, false).0, hz),
            (Kind::Sx1272, _) => adapter(rig::sx1272(&c, false, false).0, hz),
        }
    });
    match r {
        Err(p) => Err(panic_failure(cj(), &p)),
        Ok(Err(e)) => Err(Failure::new("pktstatus", cj(), e).with_fp(format!("pktstatus-error/{chip}"))),
        Ok(Ok((rssi, snr))) => judge127(&cj, chip, hz, snr_raw, rssi_raw, rssi, snr),
    }
}

// ------------------------------------------------------------------------------------------ replay / sweep

pub fn replay(case: &Value, kf: &KnownFindings) -> Result<(), Failure> {
    let chip = case["chip"].as_str().unwrap_or("");
    let path = case["path"].as_str().unwrap_or("kind");
    if case["kind"] == "rssi" {
        return replay_rssi(case);
    }
    if chip == "sx126x" {
        let raw = [case["raw"][0].as_u64().unwrap_or(0) as u8, case["raw"][1].as_u64().unwrap_or(0) as u8, case["raw"][2].as_u64().unwrap_or(0) as u8];
        let status = case["status"].as_u64().unwrap_or(STATUS_OK as u64) as u8;
        if path == "kind" {
            let mut out = Ok(None);
            with126(&mut |go| out = case126(go, raw, status, kf));
            out.map(|_| ())
        } else {
            adapter126(raw, kf).map(|_| ())
        }
    } else if chip == "sx1276" || chip == "sx1272" {
        one127(chip, path, case["freq_hz"].as_u64().unwrap_or(868_100_000) as u32, case["snr_raw"].as_u64().unwrap_or(0) as u8, case["rssi_raw"].as_u64().unwrap_or(0) as u8)
    } else {
        Err(Failure::new("bad-replay", case.clone(), "unknown chip"))
    }
}

fn replay_rssi(case: &Value) -> Result<(), Failure> {
    let chip = case["chip"].as_str().unwrap_or("");
    let raw = case["raw"].as_u64().unwrap_or(0) as u8;
    let hz = case["freq_hz"].as_u64().unwrap_or(868_100_000) as u32;
    let r = catch(|| -> Result<i64, String> {
        match chip {
            "sx126x" => {
                let c = rig::new126();
                c.borrow_mut().rssi_inst = raw;
                let (mut r, _) = rig::sx126x(&c, Sx1262, false);
                block_on(r.get_rssi()).map(|v| v as i64).map_err(|e| format!("{e:?}"))
            }
            "sx1276" => {
                let c = rig::new127(Kind::Sx1276);
                c.borrow_mut().regs[REG_RSSI_VALUE as usize] = raw;
                let (mut r, _) = rig::sx1276(&c, false, false);
                block_on(r.set_channel(hz)).map_err(|e| format!("{e:?}"))?;
                block_on(r.get_rssi()).map(|v| v as i64).map_err(|e| format!("{e:?}"))
            }
            _ => {
                let c = rig::new127(Kind::Sx1272);
                c.borrow_mut().regs[REG_RSSI_VALUE as usize] = raw;
                let (mut r, _) = rig::sx1272(&c, false, false);
                block_on(r.get_rssi()).map(|v| v as i64).map_err(|e| format!("{e:?}"))
            }
        }
    });
    match r {
        Err(p) => Err(panic_failure(case.clone(), &p)),
        Ok(Err(e)) => Err(Failure::new("rssi-inst", case.clone(), e).with_fp(format!("rssi-inst-error/{chip}"))),
        Ok(Ok(v)) => {
            let ok = if chip == "sx126x" { (2 * v + raw as i64).abs() <= 2 } else { (v - (offset127(chip, hz) + raw as i64)).abs() <= 1 };
            if ok {
                Ok(())
            } else {
                Err(Failure::new("rssi-inst", case.clone(), format!("raw {raw}: reported {v} dBm")).with_fp(format!("rssi-inst/{}", if chip == "sx126x" { "sx126x" } else { chip })))
            }
        }
    }
}

pub fn sweep(ti: usize, n: usize, st: &mut Stats, kf: &KnownFindings) {
    // SX126x: all 2^24 raw triples with a good status, split by first byte
    with126(&mut |go| {
        for a in 0..=255u8 {
            if a as usize % n != ti {
                continue;
            }
            for b in 0..=255u8 {
                for c in 0..=255u8 {
                    st.eval();
                    if b >= 128 {
                        st.nt_distinct();
                    }
                    match case126(go, [a, b, c], STATUS_OK, kf) {
                        Ok(Some(id)) => st.excluded(id),
                        Ok(None) => {
                            if st.want_sample() && a == 0x5B && b == 0xE7 && c == 0x40 {
                                st.sample(j126("kind", [a, b, c], STATUS_OK));
                            }
                        }
                        Err(f) => st.fail(f),
                    }
                }
            }
            st.class_n("pktstatus:sx126x:good-status", 65_536);
            // every status byte with this first byte (diagonal raw values)
            for status in 0..=255u8 {
                st.eval();
                st.class("pktstatus:sx126x:all-status-bytes");
                let b = a ^ 0x80;
                if let Err(f) = case126(go, [a, b.min(125), a], status, kf) {
                    st.fail(f);
                }
            }
            // instantaneous RSSI
            st.eval();
            let cj = json!({"kind":"rssi","chip":"sx126x","raw":a});
            if let Err(f) = replay_rssi(&cj) {
                st.fail(f);
            }
        }
    });
    // SX126x through the LoRaWAN adapter: all (RssiPkt, SnrPkt) pairs
    for a in 0..=255u8 {
        if (a as usize + 3) % n != ti {
            continue;
        }
        for b in 0..=255u8 {
            st.eval();
            if b >= 128 {
                st.nt_distinct();
            }
            match adapter126([a, b, 0], kf) {
                Ok(Some(id)) => st.excluded(id),
                Ok(None) => {}
                Err(f) => st.fail(f),
            }
        }
        st.class_n("pktstatus:sx126x:lorawan-rx_single", 256);
    }
    // SX127x: all (snr, rssi) per band
    let mut k = 0usize;
    for &hz in FREQS_1276.iter() {
        k += 1;
        if k % n == ti {
            sweep127("sx1276", hz, st);
        }
    }
    for hz in [868_100_000u32, 915_000_000] {
        k += 1;
        if k % n == ti {
            sweep127("sx1272", hz, st);
        }
    }
    // SX127x through the adapter on every band (the SX1276 offset depends on it): a 1024-point grid per frequency
    for (chip, hz) in [("sx1276", 137_000_000u32), ("sx1276", 169_400_000), ("sx1276", 433_175_000), ("sx1276", 490_000_000), ("sx1276", 525_000_000), ("sx1276", 862_000_000), ("sx1276", 915_000_000), ("sx1276", 1_020_000_000), ("sx1272", 915_000_000)] {
        for snr in (0..=255u8).step_by(8) {
            k += 1;
            if k % n != ti {
                continue;
            }
            for rssi in (0..=255u8).step_by(8) {
                st.eval();
                st.class(&format!("pktstatus:{chip}:lorawan-rx_single:{hz}"));
                if snr >= 128 {
                    st.nt_distinct();
                }
                if let Err(f) = one127(chip, "lorawan-rx_single", hz, snr | 3, rssi | 5) {
                    st.fail(f);
                }
            }
        }
    }
    // SX127x through the adapter: a 4096-point grid per chip
    for chip in ["sx1276", "sx1272"] {
        for snr in (0..=255u8).step_by(4) {
            k += 1;
            if k % n != ti {
                continue;
            }
            for rssi in (0..=255u8).step_by(4) {
                st.eval();
                st.class(&format!("pktstatus:{chip}:lorawan-rx_single"));
                if snr >= 128 {
                    st.nt_distinct();
                }
                if let Err(f) = one127(chip, "lorawan-rx_single", 868_100_000, snr | 1, rssi | 2) {
                    st.fail(f);
                }
            }
        }
    }
}
