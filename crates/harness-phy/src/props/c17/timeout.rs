//! C17 / RX timeouts.
//!  (a) symbol-count timeout: what the chip is told is never shorter than requested, up to the chip maximum.
//!      SX126x: SetLoRaSymbNumTimeout (0xA0) SymbNum, and — when the driver also writes it — the
//!      SYNCH_TIMEOUT register 0x0706 (mantissa[7:3] * 2^(2*exp[2:0]+1)); the largest value of that form
//!      fitting the one-byte command is 248, which is the chip maximum used here.
//!      SX127x: SymbTimeout = RegModemConfig2[1:0] : RegSymbTimeoutLsb (10 bits, maximum 1023).
//!  (b) LoRaWAN adapter: RxMode::Single{ms} -> symbols; the programmed window must cover the 12.25-symbol
//!      LoRaWAN preamble (8 + 4.25) plus the requested margin:  symbols * Tsym >= 12.25 * Tsym + ms.

use super::super::c15::{BWS, BW_ROUNDED_HZ, SFS, SF_NUM};
use crate::drive::chip126x::{Chip126x, IRQ_TIMEOUT};
use crate::drive::chip127x::{Kind, IRQ_RX_TIMEOUT, REG_MODEM_CONFIG2};
use crate::drive::rig;
use crate::drive::{block_on, panic_failure, Delay};
use lora_modulation::{BaseBandModulationParams, CodingRate};
use lora_phy::lorawan_radio::LorawanRadio;
use lora_phy::mod_traits::RadioKind;
use lora_phy::sx126x::{Sx1261, Sx1262};
use lora_phy::{LoRa, RxMode};
use lorawan_device::async_device::radio::{PhyRxTx, RfConfig, RxConfig, RxMode as LwRxMode, RxStatus};
use serde_json::{json, Value};
use verif_core::oracle::airtime::NOMINAL_BW_MILLIHZ;
use verif_core::*;

pub const SX126X_MAX_SYMB: u32 = 248;
pub const SX127X_MAX_SYMB: u32 = 1023;
pub const SYMB_CHIPS: [&str; 4] = ["sx1261", "sx1262-rxboost", "sx1276", "sx1272"];

fn symb_json(chip: &str, n: u32) -> Value {
    json!({"kind":"symb","chip":chip,"n":n})
}

fn judge_symb(chip: &str, n: u32, decoded: Result<Vec<(&'static str, u32)>, String>) -> Result<(), Failure> {
    judge_symb_at(chip, n, decoded, &|| symb_json(chip, n), "")
}

/// the symbol-timeout oracle on decoded values, wherever they were observed
pub fn judge_symb_at(chip: &str, n: u32, decoded: Result<Vec<(&'static str, u32)>, String>, case: &dyn Fn() -> Value, fp_suffix: &str) -> Result<(), Failure> {
    let symb_json = |_: &str, _: u32| case();
    let max = if chip.starts_with("sx126") { SX126X_MAX_SYMB } else { SX127X_MAX_SYMB };
    let fam = if chip.starts_with("sx126") { "sx126x" } else { "sx127x" };
    match decoded {
        Err(e) => {
            if let Some(p) = e.strip_prefix("PANIC ") {
                Err(panic_failure(symb_json(chip, n), p))
            } else {
                Err(Failure::new("symb-timeout", symb_json(chip, n), e).with_fp(format!("symb-timeout-error/{fam}{fp_suffix}")))
            }
        }
        Ok(vals) => {
            if vals.is_empty() {
                return Err(Failure::new("symb-timeout", symb_json(chip, n), "no symbol timeout was programmed").with_fp(format!("symb-timeout-not-programmed/{fam}{fp_suffix}")));
            }
            for (what, got) in vals {
                if got < n.min(max) {
                    return Err(Failure::new("symb-timeout", symb_json(chip, n), format!("requested {n} symbols (chip maximum {max}): {what} decodes to {got} symbols — shorter than requested")).with_fp(format!("symb-timeout-short/{fam}/{what}{fp_suffix}")));
                }
                if got > max && fam == "sx127x" {
                    return Err(Failure::new("symb-timeout", symb_json(chip, n), format!("{what} decodes to {got} > 10-bit maximum")).with_fp(format!("symb-timeout-overflow/{fam}{fp_suffix}")));
                }
            }
            Ok(())
        }
    }
}

fn decode126(ch: &Chip126x) -> Vec<(&'static str, u32)> {
    let mut v = vec![];
    if let Some(c) = ch.symb_timeout_cmd {
        v.push(("SetLoRaSymbNumTimeout", c as u32));
        if let Some(r) = ch.symb_timeout_reg {
            v.push(("SYNCH_TIMEOUT-register", Chip126x::decode_synch_timeout(r)));
        }
    }
    v
}

/// reusable do_rx(Single(n)) closure per chip
fn with_symb(chip: &str, f: &mut dyn FnMut(&mut dyn FnMut(u32) -> Result<Vec<(&'static str, u32)>, String>)) {
    match chip {
        "sx1261" | "sx1262-rxboost" => {
            let c = rig::new126();
            macro_rules! body {
                ($r:expr) => {{
                    let mut r = $r;
                    let mut go = |n: u32| -> Result<Vec<(&'static str, u32)>, String> {
                        c.borrow_mut().clear_captures();
                        match catch(|| block_on(r.do_rx(RxMode::Single(n as u16)))) {
                            Ok(Ok(())) => Ok(decode126(&c.borrow())),
                            Ok(Err(e)) => Err(format!("do_rx Err({e:?})")),
                            Err(p) => Err(format!("PANIC {p}")),
                        }
                    };
                    f(&mut go)
                }};
            }
            if chip == "sx1261" {
                body!(rig::sx126x(&c, Sx1261, false).0)
            } else {
                body!(rig::sx126x(&c, Sx1262, true).0)
            }
        }
        _ => {
            let kind = if chip == "sx1276" { Kind::Sx1276 } else { Kind::Sx1272 };
            let c = rig::new127(kind);
            macro_rules! body {
                ($r:expr) => {{
                    let mut r = $r;
                    let mut go = |n: u32| -> Result<Vec<(&'static str, u32)>, String> {
                        // prior register content varies with n so that the read-modify-write is exercised
                        let prior = (n as u8).wrapping_mul(37) ^ 0x5A;
                        {
                            let mut ch = c.borrow_mut();
                            ch.set_reg(REG_MODEM_CONFIG2, prior);
                            ch.clear_written();
                        }
                        match catch(|| block_on(r.do_rx(RxMode::Single(n as u16)))) {
                            Ok(Ok(())) => {
                                let ch = c.borrow();
                                if !(ch.written[0x1E] && ch.written[0x1F]) {
                                    return Ok(vec![]);
                                }
                                if ch.reg(REG_MODEM_CONFIG2) & 0xFC != prior & 0xFC {
                                    return Err(format!("RegModemConfig2 bits 7..2 changed from 0x{:02x} to 0x{:02x} while setting the timeout", prior & 0xFC, ch.reg(REG_MODEM_CONFIG2) & 0xFC));
                                }
                                Ok(vec![("SymbTimeout", ch.symb_timeout())])
                            }
                            Ok(Err(e)) => Err(format!("do_rx Err({e:?})")),
                            Err(p) => Err(format!("PANIC {p}")),
                        }
                    };
                    f(&mut go)
                }};
            }
            if kind == Kind::Sx1276 {
                body!(rig::sx1276(&c, false, false).0)
            } else {
                body!(rig::sx1272(&c, false, true).0)
            }
        }
    }
}

pub fn replay_symb(case: &Value) -> Result<(), Failure> {
    let chip = case["chip"].as_str().unwrap_or("");
    let n = case["n"].as_u64().unwrap_or(0) as u32;
    let Some(chip) = SYMB_CHIPS.iter().find(|c| **c == chip) else {
        return Err(Failure::new("bad-replay", case.clone(), "unknown chip"));
    };
    let mut out = Ok(());
    with_symb(chip, &mut |go| out = judge_symb(chip, n, go(n)));
    out
}

pub fn sweep_symb(ti: usize, n_thr: usize, st: &mut Stats) {
    for (ci, chip) in SYMB_CHIPS.iter().enumerate() {
        if ci % n_thr != ti {
            continue;
        }
        let max = if chip.starts_with("sx126") { SX126X_MAX_SYMB } else { SX127X_MAX_SYMB };
        with_symb(chip, &mut |go| {
            for n in 0..=65_535u32 {
                st.eval();
                // non-trivial: at or beyond the chip maximum, below the SX127x minimum of 4, or (SX126x) not
                // exactly representable as mantissa * 2^(2*exp+1)
                let representable = n <= 62 && n % 2 == 0 || (n % 8 == 0 && n <= 248);
                if n >= max || n < 4 || (chip.starts_with("sx126") && !representable) {
                    st.nt_distinct();
                }
                let r = go(n);
                if st.samples.len() < 5 && n % 9_001 == 77 {
                    st.sample(json!({"kind":"symb","chip":chip,"n":n,"decoded":r.as_ref().ok().map(|v| v.iter().map(|(w, g)| json!({"what":w,"symbols":g})).collect::<Vec<_>>())}));
                }
                if let Err(f) = judge_symb(chip, n, r) {
                    st.fail(f);
                }
            }
            st.class_n(&format!("symb:{chip}"), 65_536);
        });
    }
}

// ------------------------------------------------------------------ adapter ms -> symbols

pub const ADAPTER_CHIPS: [&str; 3] = ["sx1276", "sx1262", "sx1272"];
/// margins beyond the statement's 0..=1000 ms: exercised and recorded as observations (evidence classes), not judged
pub const BEYOND_MS: [u32; 12] = [1001, 1048, 1049, 2000, 5000, 16_778, 65_535, 1_000_000, 1_073_741, 1_073_742, u32::MAX / 4 + 1, u32::MAX];
pub const KF_ADAPTER: &str = "C17-adapter-margin-rounded-down";
pub const FP_ADAPTER_SUBQ: &str = "adapter-margin/short-by-less-than-a-quarter-symbol";

fn adapter_json(chip: &str, sf: usize, bw: usize, ms: u32) -> Value {
    json!({"kind":"adapter","chip":chip,"sf":SF_NUM[sf],"bw_hz":BW_ROUNDED_HZ[bw],"ms":ms})
}

/// symbols the chip was told to wait after setup_rx + rx_single (which ends in the scripted timeout)
fn adapter_observe(chip: &str, sf: usize, bw: usize, ms: u32) -> Result<Option<u32>, String> {
    fn go<RK: RadioKind>(radio: RK, sf: usize, bw: usize, ms: u32) -> Result<bool, String> {
        let lora = block_on(LoRa::new(radio, true, Delay)).map_err(|e| format!("LoRa::new Err({e:?})"))?;
        let mut lw: LorawanRadio<RK, Delay, 22> = lora.into();
        let rf = RfConfig { frequency: 868_100_000, bb: BaseBandModulationParams::new(SFS[sf], BWS[bw], CodingRate::_4_5), max_payload_len: 255 };
        match block_on(lw.setup_rx(RxConfig { rf, mode: LwRxMode::Single { ms } })) {
            Ok(()) => {}
            Err(lora_phy::lorawan_radio::Error::Radio(
                lora_phy::mod_params::RadioError::UnavailableSpreadingFactor
                | lora_phy::mod_params::RadioError::UnavailableBandwidth
                | lora_phy::mod_params::RadioError::InvalidSF6ExplicitHeaderRequest,
            )) => return Ok(false),
            Err(e) => return Err(format!("setup_rx Err({e:?})")),
        }
        let mut buf = [0u8; 256];
        match block_on(lw.rx_single(&mut buf)) {
            Ok(RxStatus::RxTimeout) => Ok(true),
            Ok(RxStatus::Rx(..)) => Err("rx_single reported a packet although the chip signalled a timeout".into()),
            Err(e) => Err(format!("rx_single Err({e:?})")),
        }
    }
    let r = catch(|| match chip {
        "sx1262" => {
            let c = rig::new126();
            c.borrow_mut().irq_on_rx = IRQ_TIMEOUT;
            let ok = go(rig::sx126x(&c, Sx1262, false).0, sf, bw, ms)?;
            if !ok {
                return Ok(None);
            }
            let ch = c.borrow();
            // the effective value: the register when the driver wrote it, else the command argument
            let v = decode126(&ch);
            Ok(v.iter().map(|x| x.1).min())
        }
        "sx1272" => {
            let c = rig::new127(Kind::Sx1272);
            c.borrow_mut().irq_on_rx = IRQ_RX_TIMEOUT;
            let ok = go(rig::sx1272(&c, false, false).0, sf, bw, ms)?;
            if !ok {
                return Ok(None);
            }
            let ch = c.borrow();
            Ok(Some(ch.symb_timeout()))
        }
        _ => {
            let c = rig::new127(Kind::Sx1276);
            c.borrow_mut().irq_on_rx = IRQ_RX_TIMEOUT;
            let ok = go(rig::sx1276(&c, false, false).0, sf, bw, ms)?;
            if !ok {
                return Ok(None);
            }
            let ch = c.borrow();
            Ok(Some(ch.symb_timeout()))
        }
    });
    match r {
        Ok(x) => x,
        Err(p) => Err(format!("PANIC {p}")),
    }
}

/// 4*n >= 49 + 4*ms*BW/(1000*2^SF), with BW in milli-hertz; returns the deficit in 1/4000000 ... as a rational
/// comparison: (covered, deficit_below_quarter_symbol)
fn covered(n: u32, sf: usize, bw_millihz: u64, ms: u32) -> (bool, bool) {
    // n * 2^SF / BW >= 12.25 * 2^SF / BW + ms/1000      (BW in Hz = bw_millihz / 1000)
    // <=> 4 n * 2^SF * 1e6 >= 49 * 2^SF * 1e6 + 4 * ms * bw_millihz
    let p = (1u128 << SF_NUM[sf]) * 1_000_000;
    let lhs = 4 * n as u128 * p;
    let rhs = 49 * p + 4 * ms as u128 * bw_millihz as u128;
    (lhs >= rhs, lhs + p > rhs)
}

#[derive(Debug, Clone, Copy, PartialEq)]
pub enum AdapterOutcome {
    PairRefused,
    AtChipMaximum,
    Covered,
    Tolerated(&'static str),
}

pub fn adapter_case(chip: &str, sf: usize, bw: usize, ms: u32, kf: &KnownFindings) -> Result<AdapterOutcome, Failure> {
    let cj = || adapter_json(chip, sf, bw, ms);
    let got = match adapter_observe(chip, sf, bw, ms) {
        Ok(Some(g)) => g,
        Ok(None) => return Ok(AdapterOutcome::PairRefused), // pair not supported by this chip
        Err(e) => {
            return Err(match e.strip_prefix("PANIC ") {
                Some(p) => panic_failure(cj(), p),
                None => Failure::new("adapter-margin", cj(), e).with_fp(format!("adapter-error/{chip}")),
            })
        }
    };
    let max = if chip == "sx1262" { SX126X_MAX_SYMB } else { SX127X_MAX_SYMB };
    if got >= max {
        return Ok(AdapterOutcome::AtChipMaximum); // at the chip maximum nothing more can be asked
    }
    // the chip's real bandwidth is the nominal one; the crate computes with rounded constants. A window
    // that covers the request under either reading is accepted.
    let (c1, q1) = covered(got, sf, NOMINAL_BW_MILLIHZ[bw], ms);
    let (c2, q2) = covered(got, sf, BW_ROUNDED_HZ[bw] as u64 * 1000, ms);
    if c1 || c2 {
        return Ok(AdapterOutcome::Covered);
    }
    let sub_quarter = q1 || q2;
    let fp = if sub_quarter { FP_ADAPTER_SUBQ.to_string() } else { "adapter-margin/short".to_string() };
    if sub_quarter && kf.is_active(KF_ADAPTER) {
        return Ok(AdapterOutcome::Tolerated(KF_ADAPTER));
    }
    let tsym_us = (1u128 << SF_NUM[sf]) * 1_000_000_000 / NOMINAL_BW_MILLIHZ[bw] as u128;
    let need_us = tsym_us * 49 / 4 + ms as u128 * 1000;
    Err(Failure::new(
        "adapter-margin",
        cj(),
        format!("RxMode::Single{{ms: {ms}}} at SF{} / {} Hz: chip told {got} symbols = {} us, preamble 12.25 symbols + margin = {} us (symbol {} us)", SF_NUM[sf], BW_ROUNDED_HZ[bw], tsym_us * got as u128, need_us, tsym_us),
    )
    .with_fp(fp))
}

pub fn replay_adapter(case: &Value, kf: &KnownFindings) -> Result<(), Failure> {
    let chip = case["chip"].as_str().unwrap_or("");
    let sf = SF_NUM.iter().position(|s| Some(*s as u64) == case["sf"].as_u64());
    let bw = BW_ROUNDED_HZ.iter().position(|s| Some(*s as u64) == case["bw_hz"].as_u64());
    let (Some(sf), Some(bw), Some(chip)) = (sf, bw, ADAPTER_CHIPS.iter().find(|c| **c == chip)) else {
        return Err(Failure::new("bad-replay", case.clone(), "not an adapter case"));
    };
    adapter_case(chip, sf, bw, case["ms"].as_u64().unwrap_or(0) as u32, kf).map(|_| ())
}

pub fn sweep_adapter(ti: usize, n_thr: usize, st: &mut Stats, kf: &KnownFindings) {
    let mut k = 0usize;
    for chip in ADAPTER_CHIPS {
        for sf in 0..8 {
            for bw in 0..10 {
                k += 1;
                if k % n_thr != ti {
                    continue;
                }
                for ms in 0..=1000u32 {
                    st.eval();
                    let out = adapter_case(chip, sf, bw, ms, kf);
                    let supported = !matches!(out, Ok(AdapterOutcome::PairRefused));
                    match out {
                        Ok(AdapterOutcome::Tolerated(id)) => st.excluded(id),
                        Ok(AdapterOutcome::PairRefused) => st.class(&format!("adapter:{chip}:pair-refused")),
                        Ok(AdapterOutcome::AtChipMaximum) => st.class(&format!("adapter:{chip}:at-chip-maximum")),
                        Ok(AdapterOutcome::Covered) => {}
                        Err(f) => st.fail(f),
                    }
                    // non-trivial: supported pair and the margin is not a whole number of symbols (rounding matters)
                    let p = (1u128 << SF_NUM[sf]) * 1_000_000;
                    if supported && (ms as u128 * NOMINAL_BW_MILLIHZ[bw] as u128) % p != 0 {
                        st.nt_distinct();
                    }
                    if supported && st.samples.len() < 6 && ms == 50 && (sf + bw) % 5 == 0 {
                        st.sample(json!({"kind":"adapter","chip":chip,"sf":SF_NUM[sf],"bw_hz":BW_ROUNDED_HZ[bw],"ms":ms,"symbols_programmed":adapter_observe(chip, sf, bw, ms).ok().flatten()}));
                    }
                }
                st.class_n(&format!("adapter:{chip}"), 1001);
                // beyond the stated domain: observations only
                for ms in BEYOND_MS {
                    st.eval();
                    let what = match adapter_case(chip, sf, bw, ms, kf) {
                        Ok(AdapterOutcome::PairRefused) => continue,
                        Ok(AdapterOutcome::AtChipMaximum) => "at-chip-maximum",
                        Ok(AdapterOutcome::Covered) => "covered",
                        Ok(AdapterOutcome::Tolerated(_)) => "short-by-less-than-a-quarter-symbol",
                        Err(f) if f.rule == "no-panic" => "panic",
                        Err(_) => "short",
                    };
                    st.class(&format!("adapter:beyond-1000ms-not-judged:{what}"));
                }
            }
        }
    }
}
