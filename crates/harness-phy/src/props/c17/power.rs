//! C17 / TX power: the PA settings the drivers write decode (datasheet tables) to the requested
//! output power clamped into the chip's range, and never above the request inside that range.
//!
//! SX126x decode (DS.SX1261-2 table 13-21 "PA operating modes with optimal settings", 13.4.4 SetTxParams):
//!   a row (paDutyCycle, hpMax, deviceSel) delivers its nominal power at the SetTxParams value listed
//!   in the row, and 1 dB less per step below it. deviceSel 1 = SX1261 (power -17..+14), 0 = SX1262
//!   (power -9..+22). paLut is always 0x01. Below 400 MHz paDutyCycle above 0x04 is not allowed on the SX1261.
//!   For the STM32WL the rows ST ships in STM32CubeWL (radio_driver.c, SUBGRF_SetTxParams) are
//!   admissible as well (they differ in the +15 dBm LP row and in anchoring the +14 dBm HP row at 14).
//! SX1276 decode (datasheet 5.4.2/5.4.3, RegPaConfig 0x09, RegPaDac 0x4D):
//!   PaSelect=1: Pout = 17 - (15 - OutputPower) [+3 dB with PaDac = 0x87]; PaSelect=0: Pmax = 10.8 + 0.6 MaxPower,
//!   Pout = Pmax - (15 - OutputPower).
//! SX1272 decode (datasheet 5.4.2/5.4.3, RegPaConfig 0x09, RegPaDac 0x5A):
//!   PaSelect=0: Pout = -1 + OutputPower; PaSelect=1: Pout = 2 + OutputPower [+3 dB with PaDac = 0x87].

use crate::drive::chip127x::{Kind, REG_PA_CONFIG};
use crate::drive::rig;
use crate::drive::{block_on, panic_failure, Delay};
use lora_modulation::{Bandwidth, CodingRate, SpreadingFactor};
use lora_phy::mod_params::RadioError;
use lora_phy::mod_traits::RadioKind;
use lora_phy::sx126x::{Stm32wl, Sx1261, Sx1262};
use lora_phy::LoRa;
use serde_json::{json, Value};
use verif_core::*;

pub const VARIANTS: [&str; 8] = ["sx1261", "sx1262", "stm32wl-hp", "stm32wl-lp", "sx1276-rfo", "sx1276-boost", "sx1272-rfo", "sx1272-boost"];
pub const PATHS: [&str; 3] = ["kind", "prepare_for_tx", "lorawan-tx"];
/// band classes: unknown (no modulation parameters given), below 400 MHz, above
/// band classes: unknown (no modulation parameters given), below 400 MHz (incl. the last Hz below the SX1261 +15 dBm
/// threshold), exactly at it, and the 433 / 868 / 915 MHz bands
pub const BANDS: [Option<u32>; 8] = [None, Some(169_400_000), Some(399_999_999), Some(400_000_000), Some(433_175_000), Some(868_100_000), Some(915_000_000), Some(1_020_000_000)];

#[derive(Clone, Copy)]
struct Row {
    duty: u8,
    hpmax: u8,
    devsel: u8,
    dbm: i32,
    at_param: i32,
    /// row only valid at or above this frequency
    min_hz: u32,
}
const fn row(duty: u8, hpmax: u8, devsel: u8, dbm: i32, at_param: i32, min_hz: u32) -> Row {
    Row { duty, hpmax, devsel, dbm, at_param, min_hz }
}
/// Semtech table 13-21
const SEMTECH_ROWS: [Row; 7] = [
    row(0x06, 0x00, 1, 15, 14, 400_000_000),
    row(0x04, 0x00, 1, 14, 14, 0),
    row(0x01, 0x00, 1, 10, 13, 0),
    row(0x04, 0x07, 0, 22, 22, 0),
    row(0x03, 0x05, 0, 20, 22, 0),
    row(0x02, 0x03, 0, 17, 22, 0),
    row(0x02, 0x02, 0, 14, 22, 0),
];
/// rows of ST's STM32CubeWL driver that differ from the Semtech ones
const ST_ROWS: [Row; 2] = [row(0x07, 0x00, 1, 15, 14, 0), row(0x02, 0x02, 0, 14, 14, 0)];

#[derive(Debug, Clone)]
pub struct Case {
    pub variant: usize,
    pub path: usize,
    pub dbm: i64,
    pub band: Option<u32>,
    pub tx_prep: bool,
    /// board options: bit 0 rx_boost, bit 1 DC-DC (SX126x; on SX127x the PA pin comes from the variant), bit 2 TCXO
    pub board: u8,
    /// adapter path only: the antenna gain / board loss G the LorawanRadio is instantiated with (the MAC has
    /// already accounted for it in TxConfig.pw, so it must not change what is programmed)
    pub gain: i8,
}
pub const GAINS: [i8; 3] = [0, -3, 6];
impl Case {
    pub fn json(&self) -> Value {
        json!({"kind":"power","variant":VARIANTS[self.variant],"path":PATHS[self.path],"dbm":self.dbm,"band_hz":self.band,"tx_prep":self.tx_prep,"board_options":self.board,"adapter_antenna_gain":self.gain})
    }
    pub fn from_json(v: &Value) -> Option<Case> {
        Some(Case {
            variant: VARIANTS.iter().position(|s| Some(*s) == v["variant"].as_str())?,
            path: PATHS.iter().position(|s| Some(*s) == v["path"].as_str())?,
            dbm: v["dbm"].as_i64()?,
            band: v["band_hz"].as_u64().map(|x| x as u32),
            tx_prep: v["tx_prep"].as_bool().unwrap_or(true),
            board: v["board_options"].as_u64().unwrap_or(0) as u8,
            gain: v["adapter_antenna_gain"].as_i64().unwrap_or(0) as i8,
        })
    }
}

#[derive(Debug, Clone)]
pub enum Obs {
    Refused(String),
    /// SX126x: SetPaConfig bytes, SetTxParams bytes
    P126 { pa: Option<[u8; 4]>, tx: Option<[u8; 2]> },
    /// SX127x: RegPaConfig, RegPaDac, both written?
    P127 { pa_config: u8, pa_dac: u8, written: bool },
}

fn drive_kind<RK: RadioKind>(radio: &mut RK, c: &Case) -> Result<(), RadioError> {
    match c.band {
        None => block_on(radio.set_tx_power_and_ramp_time(c.dbm as i32, None, c.tx_prep)),
        Some(hz) => {
            // 125 kHz is accepted in every band
            let mp = radio.create_modulation_params(SpreadingFactor::_9, Bandwidth::_125KHz, CodingRate::_4_5, hz)?;
            block_on(radio.set_tx_power_and_ramp_time(c.dbm as i32, Some(&mp), c.tx_prep))
        }
    }
}

fn drive_lora<RK: RadioKind>(radio: RK, c: &Case, after_init: &dyn Fn()) -> Result<(), RadioError> {
    let mut lora = block_on(LoRa::new(radio, true, Delay))?;
    let hz = c.band.unwrap_or(868_100_000);
    let mp = lora.create_modulation_params(SpreadingFactor::_9, Bandwidth::_125KHz, CodingRate::_4_5, hz)?;
    let mut pp = lora.create_tx_packet_params(8, false, true, false, &mp)?;
    after_init();
    block_on(lora.prepare_for_tx(&mp, &mut pp, c.dbm as i32, &[1, 2, 3]))
}

/// LorawanRadio::tx with the requested power (TxConfig.pw is an i8); the adapter is instantiated with the
/// case's antenna gain G
fn drive_lw<RK: RadioKind>(radio: RK, c: &Case, after_init: &dyn Fn()) -> Result<(), RadioError> {
    match c.gain {
        0 => drive_lw_g::<RK, 0>(radio, c, after_init),
        -3 => drive_lw_g::<RK, -3>(radio, c, after_init),
        _ => drive_lw_g::<RK, 6>(radio, c, after_init),
    }
}

fn drive_lw_g<RK: RadioKind, const G: i8>(radio: RK, c: &Case, after_init: &dyn Fn()) -> Result<(), RadioError> {
    use lorawan_device::async_device::radio::{PhyRxTx, RfConfig, TxConfig};
    let lora = block_on(LoRa::new(radio, true, Delay))?;
    let mut lw: lora_phy::lorawan_radio::LorawanRadio<RK, Delay, 22, G> = lora.into();
    let rf = RfConfig { frequency: c.band.unwrap_or(868_100_000), bb: lora_modulation::BaseBandModulationParams::new(SpreadingFactor::_9, Bandwidth::_125KHz, CodingRate::_4_5), max_payload_len: 255 };
    after_init();
    match block_on(lw.tx(TxConfig { pw: c.dbm as i8, rf }, &[0x40, 1, 2, 3, 4, 0, 0, 0, 1, 9, 9, 9, 9])) {
        Ok(_) => Ok(()),
        Err(lora_phy::lorawan_radio::Error::Radio(e)) => Err(e),
        Err(_) => Err(RadioError::InvalidConfiguration),
    }
}

fn observe(c: &Case) -> Obs {
    let v = VARIANTS[c.variant];
    if c.variant < 4 {
        let chip = rig::new126();
        let clear = {
            let ch = chip.clone();
            move || ch.borrow_mut().clear_captures()
        };
        macro_rules! go {
            ($variant:expr) => {{
                let (mut r, _) = rig::sx126x_board(&chip, $variant, c.board);
                if PATHS[c.path] == "kind" {
                    drive_kind(&mut r, c)
                } else if PATHS[c.path] == "lorawan-tx" {
                    drive_lw(r, c, &clear)
                } else {
                    drive_lora(r, c, &clear)
                }
            }};
        }
        let r = match v {
            "sx1261" => go!(Sx1261),
            "sx1262" => go!(Sx1262),
            "stm32wl-hp" => go!(Stm32wl { use_high_power_pa: true }),
            _ => go!(Stm32wl { use_high_power_pa: false }),
        };
        match r {
            Err(e) => Obs::Refused(format!("{e:?}")),
            Ok(()) => {
                let ch = chip.borrow();
                Obs::P126 { pa: ch.pa_config, tx: ch.tx_params }
            }
        }
    } else {
        let kind = if v.starts_with("sx1276") { Kind::Sx1276 } else { Kind::Sx1272 };
        let boost = v.ends_with("boost");
        let chip = rig::new127(kind);
        let clear = {
            let ch = chip.clone();
            move || ch.borrow_mut().clear_written()
        };
        let r = if kind == Kind::Sx1276 {
            let (mut r, _) = rig::sx1276_board(&chip, (c.board & 5) | if boost { 2 } else { 0 });
            if PATHS[c.path] == "kind" {
                drive_kind(&mut r, c)
            } else if PATHS[c.path] == "lorawan-tx" {
                drive_lw(r, c, &clear)
            } else {
                drive_lora(r, c, &clear)
            }
        } else {
            let (mut r, _) = rig::sx1272_board(&chip, (c.board & 5) | if boost { 2 } else { 0 });
            if PATHS[c.path] == "kind" {
                drive_kind(&mut r, c)
            } else if PATHS[c.path] == "lorawan-tx" {
                drive_lw(r, c, &clear)
            } else {
                drive_lora(r, c, &clear)
            }
        };
        match r {
            Err(e) => Obs::Refused(format!("{e:?}")),
            Ok(()) => {
                let ch = chip.borrow();
                let dac_addr = if kind == Kind::Sx1276 { 0x4D } else { 0x5A };
                Obs::P127 { pa_config: ch.reg(REG_PA_CONFIG), pa_dac: ch.pa_dac(), written: ch.written[REG_PA_CONFIG as usize] && ch.written[dac_addr] }
            }
        }
    }
}

/// what is judged: the request (variant, dBm, band) and the case file a failure carries
pub struct Judged<'a> {
    pub variant: usize,
    pub dbm: i64,
    pub band: Option<u32>,
    pub case: &'a dyn Fn() -> Value,
    /// appended to every fingerprint ("" for the stateless sweep)
    pub fp_suffix: &'a str,
}

fn fail(c: &Judged<'_>, rule_fp: &str, detail: String) -> Failure {
    Failure::new("power-decode", (c.case)(), detail).with_fp(format!("{rule_fp}/{}{}", VARIANTS[c.variant], c.fp_suffix))
}

/// clamp edges of the request domain, for the non-triviality rule
pub fn range_of(variant: usize, band: Option<u32>) -> (i64, i64) {
    match VARIANTS[variant] {
        "sx1261" | "stm32wl-lp" => (-17, if matches!(band, Some(hz) if hz < 400_000_000) { 14 } else { 15 }),
        "sx1262" | "stm32wl-hp" => (-9, 22),
        "sx1276-rfo" => (-4, 14),
        "sx1272-rfo" => (-1, 14),
        _ => (2, 20),
    }
}

fn judge(c: &Case, o: &Obs) -> Result<(), Failure> {
    judge_parts(&Judged { variant: c.variant, dbm: c.dbm, band: c.band, case: &|| c.json(), fp_suffix: "" }, o)
}

/// the decode-and-compare oracle on an observation, wherever it was taken
pub fn judge_parts(c: &Judged<'_>, o: &Obs) -> Result<(), Failure> {
    let v = VARIANTS[c.variant];
    let req = c.dbm;
    match o {
        Obs::Refused(e) => {
            // the only documented refusal: SX1261-type PA, +15 dBm or more requested below 400 MHz
            let lp = v == "sx1261" || v == "stm32wl-lp";
            if lp && req >= 15 && matches!(c.band, Some(hz) if hz < 400_000_000) && e == "InvalidOutputPowerForFrequency" {
                Ok(())
            } else {
                Err(fail(c, "power-refused", format!("request {req} dBm refused with {e}")))
            }
        }
        Obs::P126 { pa, tx } => {
            let (Some(pa), Some(tx)) = (pa, tx) else {
                return Err(fail(c, "power-not-programmed", format!("SetPaConfig {pa:?} / SetTxParams {tx:?} missing")));
            };
            let hp = v == "sx1262" || v == "stm32wl-hp";
            let want_devsel = if hp { 0 } else { 1 };
            if pa[2] != want_devsel || pa[3] != 0x01 {
                return Err(fail(c, "pa-undecodable", format!("SetPaConfig {pa:02x?}: deviceSel must be {want_devsel} for this part and paLut 0x01")));
            }
            let param = tx[0] as i8 as i32;
            let (pmin, pmax) = if hp { (-9, 22) } else { (-17, 14) };
            if param < pmin || param > pmax {
                return Err(fail(c, "power-param-out-of-range", format!("SetTxParams power {param} outside {pmin}..={pmax} for this PA (request {req})")));
            }
            let (lo, hi) = range_of(c.variant, c.band);
            let want = req.clamp(lo, hi);
            let mut rows: Vec<Row> = SEMTECH_ROWS.to_vec();
            if v.starts_with("stm32wl") {
                rows.extend(ST_ROWS);
            }
            let hz = c.band.unwrap_or(u32::MAX);
            let decodes: Vec<i64> = rows.iter().filter(|r| r.duty == pa[0] && r.hpmax == pa[1] && r.devsel == pa[2] && hz >= r.min_hz && param <= r.at_param).map(|r| (r.dbm - (r.at_param - param)) as i64).collect();
            if decodes.is_empty() {
                return Err(fail(c, "pa-undecodable", format!("SetPaConfig {pa:02x?} with SetTxParams {param} is not a datasheet operating point for this part/band (request {req})")));
            }
            if decodes.contains(&want) {
                return Ok(());
            }
            let d = decodes[0];
            if req >= lo && req <= hi && d > req {
                Err(fail(c, "power-above-request", format!("request {req} dBm: SetPaConfig {pa:02x?} + SetTxParams {param} decodes to {d} dBm")))
            } else {
                Err(fail(c, "power-mismatch", format!("request {req} dBm (clamped {want}): SetPaConfig {pa:02x?} + SetTxParams {param} decodes to {decodes:?} dBm")))
            }
        }
        Obs::P127 { pa_config, pa_dac, written } => {
            if !written {
                return Err(fail(c, "power-not-programmed", "RegPaConfig / RegPaDac not both written".into()));
            }
            let boost_cfg = v.ends_with("boost");
            let sel = pa_config & 0x80 != 0;
            let op = (pa_config & 0x0F) as i64;
            if *pa_dac != 0x84 && *pa_dac != 0x87 {
                return Err(fail(c, "pa-undecodable", format!("RegPaDac = 0x{pa_dac:02x} (datasheet: 0x84 default or 0x87 for +20 dBm)")));
            }
            if sel != boost_cfg {
                return Err(fail(c, "pa-wrong-pin", format!("RegPaConfig = 0x{pa_config:02x}: PaSelect={} but the board uses {}", sel as u8, if boost_cfg { "PA_BOOST" } else { "RFO" })));
            }
            if !sel && *pa_dac == 0x87 {
                return Err(fail(c, "pa-undecodable", "PaDac 0x87 (+20 dBm) with the RFO pin selected".to_string()));
            }
            // decoded power in tenths of a dB
            let tenths: i64 = if v.starts_with("sx1276") {
                if sel {
                    (2 + op) * 10 + if *pa_dac == 0x87 { 30 } else { 0 }
                } else {
                    let maxp = ((pa_config >> 4) & 0x07) as i64;
                    108 + 6 * maxp - 10 * (15 - op)
                }
            } else {
                if pa_config & 0x70 != 0 {
                    return Err(fail(c, "pa-undecodable", format!("SX1272 RegPaConfig = 0x{pa_config:02x}: unused bits 6..4 set (field spilled)")));
                }
                if sel {
                    (2 + op) * 10 + if *pa_dac == 0x87 { 30 } else { 0 }
                } else {
                    (op - 1) * 10
                }
            };
            // SX1276 RFO: the datasheet gives both "+14 dBm" (electrical spec) and "-4..+15" (table 33): either upper edge
            let ranges: Vec<(i64, i64)> = match v {
                "sx1276-rfo" => vec![(-4, 14), (-4, 15)],
                "sx1272-rfo" => vec![(-1, 14)],
                _ => vec![(2, 20)],
            };
            let mut above = false;
            for (lo, hi) in ranges.iter().copied() {
                let want = req.clamp(lo, hi);
                let close = (tenths - want * 10).abs() < 10;
                let not_above = !(req >= lo && req <= hi) || tenths <= req * 10;
                if close && not_above {
                    return Ok(());
                }
                if close && !not_above {
                    above = true;
                }
            }
            let shown = format!("{}{}.{} dBm", if tenths < 0 { "-" } else { "" }, tenths.abs() / 10, tenths.abs() % 10);
            if above {
                Err(fail(c, "power-above-request", format!("request {req} dBm: RegPaConfig 0x{pa_config:02x} / RegPaDac 0x{pa_dac:02x} decode to {shown}")))
            } else {
                Err(fail(c, "power-mismatch", format!("request {req} dBm (chip range {:?}): RegPaConfig 0x{pa_config:02x} / RegPaDac 0x{pa_dac:02x} decode to {shown}", ranges[0])))
            }
        }
    }
}

pub fn run_case(c: &Case) -> Result<(), Failure> {
    match catch(|| observe(c)) {
        Ok(o) => judge(c, &o),
        Err(p) => Err(panic_failure(c.json(), &p)),
    }
}

pub fn replay(case: &Value) -> Result<(), Failure> {
    match Case::from_json(case) {
        Some(c) => run_case(&c),
        None => Err(Failure::new("bad-replay", case.clone(), "not a power case")),
    }
}

pub fn requests() -> Vec<i64> {
    let mut v: Vec<i64> = (-128..=127).collect();
    v.extend([i32::MIN as i64, i32::MIN as i64 + 1, -65_536, -32_769, -32_768, -257, -256, -129, 128, 255, 256, 32_767, 32_768, 65_535, 65_536, i32::MAX as i64 - 1, i32::MAX as i64]);
    v
}

pub fn sweep(ti: usize, n: usize, st: &mut Stats) {
    let reqs = requests();
    let mut k = 0usize;
    for variant in 0..VARIANTS.len() {
        for path in 0..PATHS.len() {
            for band in BANDS {
                if path != 0 && band.is_none() {
                    continue; // prepare_for_tx / the adapter always know the frequency
                }
                for tx_prep in [true, false] {
                    if path != 0 && !tx_prep {
                        continue;
                    }
                    // board options: all 8 combinations at the RadioKind level, none / all through LoRa, none through the adapter
                    let boards: &[u8] = match path {
                        0 => &[0, 1, 2, 3, 4, 5, 6, 7],
                        1 => &[0, 7],
                        _ => &[0],
                    };
                    for &board in boards {
                        if VARIANTS[variant].starts_with("sx127") && board & 2 != 0 {
                            continue; // the PA pin of the SX127x boards is the variant itself
                        }
                        for &dbm in reqs.iter() {
                            if path != 0 && !(-128..=127).contains(&dbm) {
                                continue;
                            }
                            // the adapter is instantiated with every antenna gain of GAINS
                            let gains: &[i8] = if path == 2 { &GAINS } else { &GAINS[..1] };
                            for &gain in gains {
                                k += 1;
                                if k % n != ti {
                                    continue;
                                }
                                let c = Case { variant, path, dbm, band, tx_prep, board, gain };
                                st.eval();
                                st.class(&format!("power:{}", VARIANTS[variant]));
                                st.class(&format!("power:path:{}", PATHS[path]));
                                if gain != 0 {
                                    st.class("power:adapter-with-antenna-gain");
                                }
                                let (lo, hi) = range_of(variant, band);
                                if dbm <= lo || dbm >= hi {
                                    st.nt_distinct();
                                    st.class("power:at-or-beyond-clamp-edge");
                                }
                                match run_case(&c) {
                                    Ok(()) => {
                                        if st.samples.len() < 4 && (k % 997 == 5) {
                                            st.sample(c.json());
                                        }
                                    }
                                    Err(f) => st.fail(f),
                                }
                            }
                        }
                    }
                }
            }
        }
    }
}
