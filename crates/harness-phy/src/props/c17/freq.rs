//! C17 / frequency: the synthesiser word the drivers write decodes to the requested frequency.
//!   SX126x: SetRfFrequency (opcode 0x86) carries RfFreq with  f = RfFreq * 32 MHz / 2^25  (datasheet 13.4.1):
//!           required |f - request| <= half a step (rounded to nearest, i.e. < 0.48 Hz).
//!   SX127x: RegFrfMsb/Mid/Lsb (0x06..0x08) with  f = Frf * 32 MHz / 2^19  (datasheet 4.1.4):
//!           required |f - request| < 62 Hz (the statement's bound; one step is 61.04 Hz).

use crate::drive::chip127x::Kind;
use crate::drive::rig;
use crate::drive::{block_on, panic_failure, Delay};
use lora_modulation::{Bandwidth, BaseBandModulationParams, CodingRate, SpreadingFactor};
use lora_phy::lorawan_radio::LorawanRadio;
use lora_phy::mod_traits::RadioKind;
use lora_phy::sx126x::Sx1262;
use lora_phy::LoRa;
use lorawan_device::async_device::radio::{PhyRxTx, RfConfig, RxConfig, RxMode as LwRxMode, TxConfig};
use serde_json::{json, Value};
use verif_core::*;

pub const CHIPS: [&str; 3] = ["sx126x", "sx1276", "sx1272"];
const XTAL: i128 = 32_000_000;

fn case_json(chip: &str, path: &str, hz: u32) -> Value {
    json!({"kind":"freq","chip":chip,"path":path,"hz":hz})
}

/// judge a decoded synthesiser word
fn judge(chip: &str, path: &str, hz: u32, word: Option<u32>) -> Result<(), Failure> {
    judge_word(chip, hz, word, &|| case_json(chip, path, hz), "")
}

/// the decode-and-compare oracle on a synthesiser word, wherever it was observed; `case` is the case file a
/// failure carries (built only when there is one), `fp_suffix` is appended to the fingerprint ("" for the stateless sweep)
pub fn judge_word(chip: &str, hz: u32, word: Option<u32>, case: &dyn Fn() -> Value, fp_suffix: &str) -> Result<(), Failure> {
    let case_json = |_: &str, _: &str, _: u32| case();
    let path = "";
    let Some(w) = word else {
        return Err(Failure::new("freq-decode", case_json(chip, path, hz), "no frequency was programmed").with_fp(format!("freq-not-programmed/{chip}{fp_suffix}")));
    };
    if chip == "sx126x" {
        // |w*XTAL/2^25 - hz| <= XTAL/2^26   <=>   |2*w*XTAL - hz*2^26| <= XTAL
        let d = (2 * w as i128 * XTAL - ((hz as i128) << 26)).abs();
        if d > XTAL {
            let milli = (w as i128 * XTAL * 1000) >> 25;
            return Err(Failure::new("freq-decode", case_json(chip, path, hz), format!("SetRfFrequency word {w} decodes to {}.{:03} Hz, requested {hz} Hz: further than half a PLL step (0.477 Hz)", milli / 1000, milli % 1000))
                .with_fp(format!("freq-decode/sx126x/not-nearest-step{fp_suffix}")));
        }
    } else {
        // |w*XTAL/2^19 - hz| < 62   <=>   |w*XTAL - hz*2^19| < 62*2^19
        let d = (w as i128 * XTAL - ((hz as i128) << 19)).abs();
        if d >= 62i128 << 19 {
            let milli = (w as i128 * XTAL * 1000) >> 19;
            return Err(Failure::new("freq-decode", case_json(chip, path, hz), format!("Frf {w} decodes to {}.{:03} Hz, requested {hz} Hz: 62 Hz or more away", milli / 1000, milli % 1000)).with_fp(format!("freq-decode/{chip}/62Hz-or-more{fp_suffix}")));
        }
    }
    Ok(())
}

pub fn nontrivial(chip: &str, hz: u32) -> bool {
    let sh = if chip == "sx126x" { 25 } else { 19 };
    ((hz as u128) << sh) % XTAL as u128 != 0
}

/// A reusable "set_channel and read back the word" closure per chip.
pub fn with_setter(chip: &str, f: &mut dyn FnMut(&mut dyn FnMut(u32) -> Result<Option<u32>, String>)) {
    match chip {
        "sx126x" => {
            let c = rig::new126();
            let (mut r, _) = rig::sx126x(&c, Sx1262, false);
            let mut set = |hz: u32| -> Result<Option<u32>, String> {
                c.borrow_mut().rf_freq_steps = None;
                match catch(|| block_on(r.set_channel(hz))) {
                    Ok(Ok(())) => Ok(c.borrow().rf_freq_steps),
                    Ok(Err(e)) => Err(format!("set_channel returned Err({e:?})")),
                    Err(p) => Err(format!("PANIC {p}")),
                }
            };
            f(&mut set)
        }
        "sx1276" | "sx1272" => {
            let kind = if chip == "sx1276" { Kind::Sx1276 } else { Kind::Sx1272 };
            let c = rig::new127(kind);
            // poison the registers so that a missing byte write cannot go unnoticed
            macro_rules! body {
                ($r:expr) => {{
                    let mut r = $r;
                    let mut set = |hz: u32| -> Result<Option<u32>, String> {
                        {
                            let mut ch = c.borrow_mut();
                            ch.clear_written();
                        }
                        match catch(|| block_on(r.set_channel(hz))) {
                            Ok(Ok(())) => {
                                let ch = c.borrow();
                                if ch.written[0x06] && ch.written[0x07] && ch.written[0x08] {
                                    Ok(Some(ch.frf()))
                                } else {
                                    Ok(None)
                                }
                            }
                            Ok(Err(e)) => Err(format!("set_channel returned Err({e:?})")),
                            Err(p) => Err(format!("PANIC {p}")),
                        }
                    };
                    f(&mut set)
                }};
            }
            if kind == Kind::Sx1276 {
                body!(rig::sx1276(&c, false, false).0)
            } else {
                body!(rig::sx1272(&c, false, false).0)
            }
        }
        _ => {}
    }
}

fn fail_of(chip: &str, path: &str, hz: u32, e: String) -> Failure {
    if let Some(p) = e.strip_prefix("PANIC ") {
        panic_failure(case_json(chip, path, hz), p)
    } else {
        Failure::new("freq-decode", case_json(chip, path, hz), e).with_fp(format!("freq-error/{chip}"))
    }
}

/// LoRaWAN channel plan frequencies (RP002 formulas), used through the LoRaWAN adapter.
pub fn lorawan_channels() -> Vec<u32> {
    let mut v: Vec<u32> = vec![];
    // EU868 (defaults, common additional channels, RX2) and EU433
    v.extend([868_100_000, 868_300_000, 868_500_000, 869_525_000, 867_100_000, 867_300_000, 867_500_000, 867_700_000, 867_900_000, 864_100_000, 864_300_000, 864_500_000]);
    v.extend([433_175_000, 433_375_000, 433_575_000, 434_665_000]);
    // US915: 902.3 + 0.2 i, 903.0 + 1.6 i, 923.3 + 0.6 i
    v.extend((0..64).map(|i| 902_300_000 + 200_000 * i));
    v.extend((0..8).map(|i| 903_000_000 + 1_600_000 * i));
    v.extend((0..8).map(|i| 923_300_000 + 600_000 * i));
    // AU915: 915.2 + 0.2 i, 915.9 + 1.6 i
    v.extend((0..64).map(|i| 915_200_000 + 200_000 * i));
    v.extend((0..8).map(|i| 915_900_000 + 1_600_000 * i));
    // AS923-1..4: 923.2 / 923.4 MHz + group offset (0, -1.8, -6.6, -5.9 MHz)
    for off in [0i64, -1_800_000, -6_600_000, -5_900_000] {
        v.push((923_200_000i64 + off) as u32);
        v.push((923_400_000i64 + off) as u32);
    }
    // IN865, KR920
    v.extend([865_062_500, 865_402_500, 865_985_000, 866_550_000]);
    v.extend((0..7).map(|i| 922_100_000 + 200_000 * i));
    v.push(921_900_000);
    // CN470: 470.3 + 0.2 i (96 up), 500.3 + 0.2 i (48 down), RX2 505.3
    v.extend((0..96).map(|i| 470_300_000 + 200_000 * i));
    v.extend((0..48).map(|i| 500_300_000 + 200_000 * i));
    v.push(505_300_000);
    v.sort();
    v.dedup();
    v
}

/// one frequency through LorawanRadio::tx / setup_rx: the last programmed word must decode to it
fn adapter_case(chip: &str, path: &str, hz: u32) -> Result<(), Failure> {
    fn go<RK: RadioKind>(radio: RK, path: &str, hz: u32) -> Result<(), String> {
        let lora = block_on(LoRa::new(radio, true, Delay)).map_err(|e| format!("LoRa::new Err({e:?})"))?;
        let mut lw: LorawanRadio<RK, Delay, 22> = lora.into();
        let rf = RfConfig { frequency: hz, bb: BaseBandModulationParams::new(SpreadingFactor::_9, Bandwidth::_125KHz, CodingRate::_4_5), max_payload_len: 255 };
        if path == "lorawan-tx" {
            block_on(lw.tx(TxConfig { pw: 10, rf }, &[0x40, 1, 2, 3, 4, 0, 0, 0, 1, 9, 9, 9, 9])).map(|_| ()).map_err(|e| format!("tx Err({e:?})"))
        } else {
            block_on(lw.setup_rx(RxConfig { rf, mode: LwRxMode::Single { ms: 20 } })).map_err(|e| format!("setup_rx Err({e:?})"))
        }
    }
    let r = catch(|| match chip {
        "sx126x" => {
            let c = rig::new126();
            let r = go(rig::sx126x(&c, Sx1262, false).0, path, hz);
            let w = c.borrow().rf_freq_steps;
            r.map(|_| w)
        }
        _ => {
            let kind = if chip == "sx1276" { Kind::Sx1276 } else { Kind::Sx1272 };
            let c = rig::new127(kind);
            let r = if kind == Kind::Sx1276 { go(rig::sx1276(&c, false, false).0, path, hz) } else { go(rig::sx1272(&c, false, false).0, path, hz) };
            let ch = c.borrow();
            let w = if ch.written[0x06] && ch.written[0x07] && ch.written[0x08] { Some(ch.frf()) } else { None };
            r.map(|_| w)
        }
    });
    match r {
        Ok(Ok(w)) => judge(chip, path, hz, w),
        Ok(Err(e)) => Err(fail_of(chip, path, hz, e)),
        Err(p) => Err(panic_failure(case_json(chip, path, hz), &p)),
    }
}

/// every LoRa bandwidth (a transmission is on the requested frequency whatever the bandwidth: receive-side
/// errata offsets of narrow bandwidths must not reach the transmit path)
pub const BWS: [Bandwidth; 10] = [Bandwidth::_7KHz, Bandwidth::_10KHz, Bandwidth::_15KHz, Bandwidth::_20KHz, Bandwidth::_31KHz, Bandwidth::_41KHz, Bandwidth::_62KHz, Bandwidth::_125KHz, Bandwidth::_250KHz, Bandwidth::_500KHz];
pub const BW_FREQS: [u32; 12] = [137_000_000, 169_400_000, 433_175_000, 470_300_000, 779_500_000, 865_062_500, 868_100_000, 868_300_000, 902_300_000, 915_000_000, 923_200_000, 1_020_000_000];

/// LoRa::prepare_for_tx + tx at bandwidth BWS[bw] (SF7, after an optional earlier reception at the same
/// bandwidth): the synthesiser word held when the transmission starts must decode to the request.
/// Ok(false) = the driver refuses the (bandwidth, frequency) pair.
fn bw_case(chip: &str, bw: usize, hz: u32, rx_first: bool) -> Result<bool, Failure> {
    let case = || json!({"kind":"freq","chip":chip,"path":"prepare_for_tx-bw","hz":hz,"bw_index":bw,"bw_hz":BWS[bw].hz(),"rx_first":rx_first});
    fn go<RK: RadioKind>(radio: RK, bw: Bandwidth, hz: u32, rx_first: bool) -> Result<bool, String> {
        let mut lora = block_on(LoRa::new(radio, true, Delay)).map_err(|e| format!("LoRa::new Err({e:?})"))?;
        let Ok(mp) = lora.create_modulation_params(SpreadingFactor::_7, bw, CodingRate::_4_5, hz) else { return Ok(false) };
        if rx_first {
            let pp = lora.create_rx_packet_params(8, false, 255, true, true, &mp).map_err(|e| format!("create_rx_packet_params Err({e:?})"))?;
            block_on(lora.prepare_for_rx(lora_phy::RxMode::Single(10), &mp, &pp)).map_err(|e| format!("prepare_for_rx Err({e:?})"))?;
            block_on(lora.start_rx()).map_err(|e| format!("start_rx Err({e:?})"))?;
        }
        let mut pp = lora.create_tx_packet_params(8, false, true, false, &mp).map_err(|e| format!("create_tx_packet_params Err({e:?})"))?;
        block_on(lora.prepare_for_tx(&mp, &mut pp, 10, &[1, 2, 3, 4])).map_err(|e| format!("prepare_for_tx Err({e:?})"))?;
        Ok(true)
    }
    let r = catch(|| match chip {
        "sx126x" => {
            let c = rig::new126();
            let r = go(rig::sx126x(&c, Sx1262, false).0, BWS[bw], hz, rx_first);
            let w = c.borrow().rf_freq_steps;
            r.map(|ok| (ok, w))
        }
        _ => {
            let kind = if chip == "sx1276" { Kind::Sx1276 } else { Kind::Sx1272 };
            let c = rig::new127(kind);
            let r = if kind == Kind::Sx1276 { go(rig::sx1276(&c, false, false).0, BWS[bw], hz, rx_first) } else { go(rig::sx1272(&c, false, false).0, BWS[bw], hz, rx_first) };
            let ch = c.borrow();
            let w = if ch.written[0x06] && ch.written[0x07] && ch.written[0x08] { Some(ch.frf()) } else { None };
            r.map(|ok| (ok, w))
        }
    });
    match r {
        Ok(Ok((false, _))) => Ok(false),
        Ok(Ok((true, w))) => judge_word(chip, hz, w, &case, "/tx-at-bandwidth").map(|_| true),
        Ok(Err(e)) => Err(Failure::new("freq-decode", case(), e).with_fp(format!("freq-error/{chip}/tx-at-bandwidth"))),
        Err(p) => Err(panic_failure(case(), &p)),
    }
}

pub fn replay(case: &Value) -> Result<(), Failure> {
    let chip = case["chip"].as_str().unwrap_or("");
    let path = case["path"].as_str().unwrap_or("set_channel");
    let hz = case["hz"].as_u64().unwrap_or(0) as u32;
    if !CHIPS.contains(&chip) {
        return Err(Failure::new("bad-replay", case.clone(), "unknown chip"));
    }
    if path == "prepare_for_tx-bw" {
        let bw = (case["bw_index"].as_u64().unwrap_or(7) as usize).min(BWS.len() - 1);
        return bw_case(chip, bw, hz, case["rx_first"].as_bool().unwrap_or(false)).map(|_| ());
    }
    if path == "set_channel" {
        let mut out = Ok(());
        with_setter(chip, &mut |set| {
            out = match set(hz) {
                Ok(w) => judge(chip, path, hz, w),
                Err(e) => Err(fail_of(chip, path, hz, e)),
            };
        });
        out
    } else {
        adapter_case(chip, path, hz)
    }
}

/// the LoRaWAN bands (865-867 MHz lies inside 863-870 MHz and is not repeated)
const BANDS: [(u32, u32); 3] = [(433_050_000, 434_790_000), (863_000_000, 870_000_000), (902_000_000, 928_000_000)];
/// requests just outside and far outside the chips' range
pub const OUTSIDE: [u32; 14] = [0, 1, 61, 1_000_000, 136_999_999, 1_020_000_001, 1_023_999_999, 1_024_000_000, 2_400_000_000, 4_095_999_999, 4_096_000_000, 4_294_967_040, u32::MAX - 1, u32::MAX];
const LO: u32 = 137_000_000;
const HI: u32 = 1_020_000_000;
pub const QUICK_STRIDE: u32 = 101;

fn in_band(hz: u32) -> bool {
    BANDS.iter().any(|&(a, b)| hz >= a && hz <= b)
}

/// sweeps for one thread. thorough: every integer Hz of 137..=1020 MHz on all three chips. quick: every
/// integer Hz of the LoRaWAN bands (superset of the 100 Hz channel grid) + a 101 Hz stride over the rest.
pub fn sweep(ti: usize, n: usize, st: &mut Stats, full: bool) {
    for chip in CHIPS {
        with_setter(chip, &mut |set| {
            let mut one = |hz: u32, st: &mut Stats| {
                st.eval();
                if nontrivial(chip, hz) {
                    st.nt_distinct();
                }
                match set(hz) {
                    Ok(w) => {
                        if let Err(f) = judge(chip, "set_channel", hz, w) {
                            st.fail(f);
                        } else if st.samples.len() < 2 && hz % 9_973 == 3 && hz % 7 == 0 {
                            st.sample(json!({"kind":"freq","chip":chip,"path":"set_channel","hz":hz,"word":w}));
                        }
                    }
                    Err(e) => st.fail(fail_of(chip, "set_channel", hz, e)),
                }
            };
            // (lo, hi, step, skip-in-band, class)
            let plans: Vec<(u32, u32, u32, bool, &str)> = if full {
                vec![(LO, HI, 1, false, "every-Hz-137-1020MHz")]
            } else {
                let mut v: Vec<(u32, u32, u32, bool, &str)> = BANDS.iter().map(|&(a, b)| (a, b, 1, false, "every-Hz-in-LoRaWAN-bands")).collect();
                v.push((LO, HI, QUICK_STRIDE, true, "stride-101Hz"));
                v.push((HI, HI, 1, true, "stride-101Hz"));
                v
            };
            let mut chunk = 0u64;
            for (lo, hi, step, skip_band, class) in plans {
                // chunks of 2^16 steps distributed round-robin
                let mut base = lo as u64;
                while base <= hi as u64 {
                    let end = (base + 65_536 * step as u64).min(hi as u64 + 1);
                    if chunk % n as u64 == ti as u64 {
                        let mut cnt = 0u64;
                        let mut hz = base;
                        while hz < end {
                            if !(skip_band && in_band(hz as u32)) {
                                one(hz as u32, st);
                                cnt += 1;
                            }
                            hz += step as u64;
                        }
                        st.class_n(&format!("freq:{chip}:{class}"), cnt);
                    }
                    base += 65_536 * step as u64;
                    chunk += 1;
                }
            }
        });
    }
    // requests outside 137-1020 MHz (outside the statement's domain: nothing is demanded of the word, but the call
    // must not panic; what the drivers do with them is recorded as a class)
    if ti == 0 {
        for chip in CHIPS {
            with_setter(chip, &mut |set| {
                for hz in OUTSIDE {
                    st.eval();
                    match set(hz) {
                        Ok(_) => st.class(&format!("freq:{chip}:outside-137-1020MHz:accepted-not-judged")),
                        Err(e) if e.starts_with("PANIC ") => st.fail(fail_of(chip, "set_channel", hz, e)),
                        Err(_) => st.class(&format!("freq:{chip}:outside-137-1020MHz:refused")),
                    }
                }
            });
        }
    }
    // transmissions at every LoRa bandwidth
    if ti == 0 {
        for chip in CHIPS {
            for bw in 0..BWS.len() {
                for hz in BW_FREQS {
                    for rx_first in [false, true] {
                        st.eval();
                        match bw_case(chip, bw, hz, rx_first) {
                            Ok(true) => {
                                st.class(&format!("freq:{chip}:tx-at-bandwidth"));
                                if BWS[bw].hz() < 125_000 {
                                    st.nt_distinct();
                                    st.class("freq:tx-at-narrow-bandwidth");
                                }
                            }
                            Ok(false) => st.class(&format!("freq:{chip}:tx-at-bandwidth:pair-refused")),
                            Err(f) => st.fail(f),
                        }
                    }
                }
            }
        }
    }
    // named LoRaWAN channels through the adapter (tx and rx configuration paths)
    let chans = lorawan_channels();
    let mut k = 0usize;
    for chip in CHIPS {
        for path in ["lorawan-tx", "lorawan-rx"] {
            for &hz in chans.iter() {
                k += 1;
                if k % n != ti {
                    continue;
                }
                st.eval();
                st.class(&format!("freq:{chip}:{path}"));
                // distinct from the set_channel cases by path; counted non-trivial by the same rule
                if nontrivial(chip, hz) {
                    st.nt_distinct();
                }
                if let Err(f) = adapter_case(chip, path, hz) {
                    st.fail(f);
                }
            }
        }
    }
}
