//! C17 — programmed frequency, TX power and RX timeout decode to what was requested; RSSI/SNR
//! conversions agree with the datasheet. Sub-checks live in the sub-modules; every case file carries
//! a "kind" that selects the sub-check on replay.

pub mod freq;
pub mod hist;
pub mod power;
pub mod status;
pub mod timeout;

use serde_json::Value;
use verif_core::*;

pub fn replay(case: &Value, kf: &KnownFindings) -> Result<(), Failure> {
    match case["kind"].as_str() {
        Some("history") => hist::replay(case),
        Some("freq") => freq::replay(case),
        Some("power") => power::replay(case),
        Some("symb") => timeout::replay_symb(case),
        Some("adapter") => timeout::replay_adapter(case, kf),
        Some("pktstatus") | Some("rssi") => status::replay(case, kf),
        _ => Err(Failure::new("bad-replay", case.clone(), "unknown C17 case kind")),
    }
}

pub fn run(ctx: &mut Ctx) {
    let full = ctx.tier == Tier::Thorough;
    ctx.level = "exploration".into();
    // the statement's quantifier includes every integer Hz of 137-1020 MHz: only the thorough tier enumerates that
    ctx.exhaustive = full;
    ctx.rule = format!(
        "(VERIF_SEED only selects the random histories of the stateful stage; everything else is enumerated) STATELESS ENUMERATION: FREQUENCY: set_channel on Sx126x(SX1262), Sx127x(SX1276), Sx127x(SX1272) for {}; plus ~390 named LoRaWAN channel frequencies (EU868, EU433, US915, AU915, AS923-1..4, IN865, KR920, CN470) through LorawanRadio::tx and ::setup_rx on the three chips; the captured SetRfFrequency word / RegFrf bytes are decoded with the datasheet formula. POWER: every request -128..=127 plus 17 wide values (i32 extremes, +-256, +-32768, ...) x 8 PA paths (SX1261, SX1262, STM32WL HP/LP, SX1276 RFO/PA_BOOST, SX1272 RFO/PA_BOOST) x band (unknown, 169.4, 399.999999, 400.0, 433.175, 868.1, 915, 1020 MHz) x ramp selection x all 8 board-option combinations (rx_boost, DC-DC, TCXO) through RadioKind::set_tx_power_and_ramp_time, -128..=127 x 8 x 7 bands x board options none/all through LoRa::prepare_for_tx, and -128..=127 x 8 x 7 bands x adapter antenna gains G {{0, -3, 6}} through LorawanRadio::tx (the MAC has already taken G off TxConfig.pw: the programmed power must not depend on it). SYMBOL TIMEOUT: do_rx(RxMode::Single(n)) for every n in 0..=65535 on SX1261, SX1262(rx boost), SX1276, SX1272. ADAPTER: LorawanRadio::setup_rx(Single{{ms}}) + rx_single for every (SF, BW) x ms 0..=1000 on SX1276, SX1262 and SX1272, reading the programmed symbol count back from the chip model (12 margins beyond 1000 ms up to u32::MAX are exercised too and recorded as classes 'adapter:beyond-1000ms-not-judged:*', outside the statement's domain). 14 set_channel requests outside 137-1020 MHz per chip are exercised for panics only. STATUS: all 2^24 GetPacketStatus triples + every status byte + GetRssiInst on SX126x, all 65536 (RssiPkt, SnrPkt) through LorawanRadio::rx_single, all (PktSnr, PktRssi) x 9 frequencies on SX1276 and x 2 on SX1272 + RegRssiValue, a 4096-point grid per SX127x chip through rx_single at 868.1 MHz and a 1024-point grid at 137 / 169.4 / 433.175 / 490 / 525 / 862 / 915 / 1020 MHz (SX1276) and 915 MHz (SX1272) through rx_single. One evaluation = one such call sequence. Non-trivial (distinct by construction, each enumerated tuple is visited once): frequency not a multiple of the synthesiser step; power request at or beyond a clamp edge of the PA path; symbol count at/above the chip maximum, below 4, or (SX126x) not representable as mantissa*2^(2e+1); adapter margin not a whole number of symbols on a pair the chip supports; raw SNR byte with the sign bit set.{}",
        if full { "EVERY integer Hz of 137..=1020 MHz (8.83e8 values per chip)" } else { "every integer Hz of the LoRaWAN bands 433.05-434.79, 863-870 (contains 865-867) and 902-928 MHz (superset of the 100 Hz channel grid) and a 101 Hz stride over the rest of 137-1020 MHz" },
        hist::RULE
    );
    ctx.assumptions = vec![
        "decoders transcribed from the datasheets: SX126x f = RfFreq*32MHz/2^25, SetPaConfig/SetTxParams operating points of table 13-21 with 1 dB per SetTxParams step below a row's anchor; SX127x f = Frf*32MHz/2^19, RegPaConfig/RegPaDac formulas; SymbTimeout 10 bit; SX126x SYNCH_TIMEOUT register mantissa*2^(2*exp+1)".into(),
        "SX126x symbol-timeout chip maximum = 248 (largest mantissa/exponent value that fits the one-byte command)".into(),
        "STM32WL PA: an operating point is accepted if it decodes to the request under Semtech's table 13-21 or under the rows of ST's STM32CubeWL driver (+14 dBm HP row anchored at SetTxParams 14; +15 dBm LP row with paDutyCycle 7)".into(),
        "SX1261-type PA below 400 MHz: chip range ends at +14 dBm (paDutyCycle <= 4); refusing >= +15 dBm with InvalidOutputPowerForFrequency is accepted there".into(),
        "SX1276 RFO upper edge: +14 dBm (electrical specification) or +15 dBm (table 33) both accepted".into(),
        "SX127x packet RSSI with negative SNR: within 1 dB of the datasheet formula with or without the 16/15 slope and with the SNR term exact or as reported (Semtech's reference drivers apply the slope in both branches)".into(),
        "adapter: a window is 'covering' if it covers 12.25 symbols + margin computed with the nominal bandwidth or with the crate's rounded bandwidth constant; requests whose answer is the chip maximum are not judged".into(),
        "1 dB tolerance is inclusive (|reported - exact| <= 1 dB)".into(),
        "LR11xx is outside this property's statement and is not exercised".into(),
        "stateful stage: 'the register values the drivers write' is read as the values the chip holds when the requested operation is carried out, whatever the same driver instance did before; a judged operation that returns an error before anything goes on the air is not judged; errors of prefix operations are tolerated; PA settings are judged for operations that transmit, the symbol timeout for operations that receive".into(),
        "stateful stage chip doubles: SX126x SetSleep bit 2 = 0 (cold start) and NRESET return the chip to its power-on state on the next access (datasheet 9.3: only a warm start retains the configuration); SX127x keeps its registers in sleep mode (registers accessible and retained, datasheet 4.1.6) and restores the reset values on NRESET".into(),
    ];
    let kf = ctx.kf.clone();
    ctx.parallel(|ti, n, st| {
        freq::sweep(ti, n, st, full);
        power::sweep(ti, n, st);
        timeout::sweep_symb(ti, n, st);
        timeout::sweep_adapter(ti, n, st, &kf);
        status::sweep(ti, n, st, &kf);
    });
    hist::stage(ctx);
}
