use verif_core::*;

pub mod c15;
pub mod c17;
pub mod c18;
pub mod c18_hist;
pub mod c18_mac;
pub mod hist;

pub fn table() -> Vec<Prop> {
    vec![
        Prop { id: "C15", run: c15::run, replay: c15::replay },
        Prop { id: "C17", run: c17::run, replay: c17::replay },
        Prop { id: "C18", run: c18::run, replay: c18::replay },
    ]
}
