use verif_core::*;

pub mod c15;

pub fn table() -> Vec<Prop> {
    vec![Prop { id: "C15", run: c15::run, replay: c15::replay }]
}
