//! C18, last clause: "the LoRaWAN adapter hands the MAC exactly those bytes".
//!
//! End to end through the real layers: chip double -> lora-phy driver -> `LoRa` -> `LorawanRadio` ->
//! `async_device::Device<_, _, _, N>` (its radio buffer of N bytes) -> MAC. The chip reports an authentic
//! downlink (built with the independent reference codec under the session keys) of a given length at
//! a given buffer offset in RX1; the MAC accepts a frame only if it received every byte of it, so
//! the oracle is: the frame fits the device's radio buffer  =>  `DownlinkReceived` and the delivered
//! application payload equals the plaintext that was encrypted; it does not fit  =>  an error or no
//! downlink, never a panic and never a delivered payload.

use super::c18::CHIPS;
use crate::drive::chip126x::{IRQ_RX_DONE, STATUS_OK};
use crate::drive::chip127x::{Kind, IRQ_RX_DONE as IRQ127_RX_DONE, REG_FIFO_RX_CURRENT_ADDR, REG_RX_NB_BYTES};
use crate::drive::rig::{self, C126, C127};
use crate::drive::{block_on, panic_failure, Delay};
use lora_phy::lorawan_radio::LorawanRadio;
use lora_phy::mod_traits::RadioKind;
use lora_phy::sx126x::Sx1262;
use lora_phy::LoRa;
use lorawan_device::async_device::{self, radio::Timer};
use lorawan_device::region::{self, DR};
use lorawan_device::{AppSKey, DevAddr, JoinMode, NwkSKey};
use serde_json::{json, Value};
use std::rc::Rc;
use verif_core::oracle::refcodec::{self, DataDesc, FType, RefPayload};
use verif_core::*;

pub const BUFS: [usize; 3] = [64, 255, 256];
const NWK: [u8; 16] = [0x11, 0x22, 0x33, 0x44, 0x55, 0x66, 0x77, 0x88, 0x99, 0xAA, 0xBB, 0xCC, 0xDD, 0xEE, 0xFF, 0x01];
const APP: [u8; 16] = [0xA1, 0xB2, 0xC3, 0xD4, 0xE5, 0xF6, 0x07, 0x18, 0x29, 0x3A, 0x4B, 0x5C, 0x6D, 0x7E, 0x8F, 0x90];
const ADDR: u32 = 0x26011F3A;

#[derive(Debug, Clone, Copy)]
pub struct MacCase {
    pub chip: usize,
    /// radio buffer size of the device
    pub n: usize,
    /// PHY length of the downlink the chip reports (13..=255)
    pub len: usize,
    /// chip buffer offset / FIFO address of its first byte
    pub off: u8,
    pub confirmed: bool,
}

impl MacCase {
    pub fn json(&self) -> Value {
        json!({"kind":"rxfetch-mac","chip":CHIPS[self.chip],"radio_buffer":self.n,"frame_len":self.len,"reported_offset":self.off,"confirmed":self.confirmed})
    }
    pub fn from_json(v: &Value) -> Option<MacCase> {
        Some(MacCase {
            chip: CHIPS.iter().position(|s| Some(*s) == v["chip"].as_str())?,
            n: v["radio_buffer"].as_u64()? as usize,
            len: (v["frame_len"].as_u64()? as usize).clamp(13, 255),
            off: v["reported_offset"].as_u64()? as u8,
            confirmed: v["confirmed"].as_bool().unwrap_or(false),
        })
    }
}

/// The timer double: the wait before RX1 is the moment the downlink "arrives" in the chip.
struct Tm {
    arrive: Rc<dyn Fn()>,
}
impl Timer for Tm {
    fn reset(&mut self) {}
    async fn at(&mut self, _millis: u64) {
        (self.arrive)();
    }
    async fn delay_ms(&mut self, _millis: u64) {}
}

fn frame(c: &MacCase) -> (Vec<u8>, Vec<u8>) {
    let plain: Vec<u8> = (0..c.len - 13).map(|i| (i as u8).wrapping_mul(31).wrapping_add(c.off) ^ 0x5C).collect();
    let d = DataDesc { ftype: if c.confirmed { FType::ConfDown } else { FType::UnconfDown }, dev_addr: ADDR, adr: false, adr_ack_req: false, ack: false, f_pending: false, fcnt: 7, fopts: vec![], payload: RefPayload::Data { port: 5, data: plain.clone() } };
    (refcodec::encode_data(&d, &NWK, Some(&APP)), plain)
}

enum Got {
    Delivered(Vec<u8>, u8),
    NoDownlink(String),
    Error(String),
}

fn drive<RK: RadioKind, const N: usize>(kind: RK, arrive: Rc<dyn Fn()>) -> Result<Got, String> {
    let lora = block_on(LoRa::new(kind, true, Delay)).map_err(|e| format!("LoRa::new {e:?}"))?;
    let radio: LorawanRadio<RK, Delay, 22> = lora.into();
    let mut dev: async_device::Device<_, _, _, N, 1> = async_device::Device::new_with_seed(region::Configuration::new(region::Region::EU868), radio, Tm { arrive }, 1);
    let mode = JoinMode::ABP { nwkskey: NwkSKey::from(NWK), appskey: AppSKey::from(APP), devaddr: DevAddr::from_value(ADDR) };
    block_on(dev.join(&mode)).map_err(|e| format!("join(ABP) {e:?}"))?;
    // DR5 uplink: RX1 at DR5, whose limit (250 + 5) admits every LoRa frame length
    dev.set_datarate(DR::_5);
    Ok(match block_on(dev.send(&[1], 9, false)) {
        Err(e) => Got::Error(format!("{e:?}")),
        Ok(r) => match dev.take_downlink() {
            Some(d) => Got::Delivered(d.data.to_vec(), d.fport),
            None => Got::NoDownlink(format!("{r:?}")),
        },
    })
}

fn arrive126(ch: &C126, bytes: Vec<u8>, off: u8) -> Rc<dyn Fn()> {
    let ch = ch.clone();
    Rc::new(move || {
        let mut m = ch.borrow_mut();
        for (i, b) in bytes.iter().enumerate() {
            m.buffer[(off as usize + i) & 0xFF] = *b;
        }
        m.status = STATUS_OK;
        m.rx_len = bytes.len() as u8;
        m.rx_start = off;
        m.irq_on_rx = IRQ_RX_DONE;
        m.pkt_status = [90, 0x14, 88];
    })
}

fn arrive127(ch: &C127, bytes: Vec<u8>, off: u8) -> Rc<dyn Fn()> {
    let ch = ch.clone();
    Rc::new(move || {
        let mut m = ch.borrow_mut();
        for (i, b) in bytes.iter().enumerate() {
            m.fifo[(off as usize + i) & 0xFF] = *b;
        }
        m.regs[REG_RX_NB_BYTES as usize] = bytes.len() as u8;
        m.regs[REG_FIFO_RX_CURRENT_ADDR as usize] = off;
        m.irq_on_rx = IRQ127_RX_DONE;
        m.regs[0x19] = 0x14;
        m.regs[0x1A] = 70;
    })
}

fn run_on(c: &MacCase) -> Result<Got, String> {
    let (bytes, _) = frame(c);
    macro_rules! sized {
        ($kind:expr, $arr:expr) => {
            match c.n {
                64 => drive::<_, 64>($kind, $arr),
                255 => drive::<_, 255>($kind, $arr),
                _ => drive::<_, 256>($kind, $arr),
            }
        };
    }
    match CHIPS[c.chip] {
        "sx126x" => {
            let ch = rig::new126();
            let (k, _) = rig::sx126x(&ch, Sx1262, false);
            sized!(k, arrive126(&ch, bytes, c.off))
        }
        "sx1276" => {
            let ch = rig::new127(Kind::Sx1276);
            let (k, _) = rig::sx1276(&ch, false, false);
            sized!(k, arrive127(&ch, bytes, c.off))
        }
        _ => {
            let ch = rig::new127(Kind::Sx1272);
            let (k, _) = rig::sx1272(&ch, false, false);
            sized!(k, arrive127(&ch, bytes, c.off))
        }
    }
}

pub fn run_case(c: &MacCase) -> Result<&'static str, Failure> {
    let chip = CHIPS[c.chip];
    let (_, plain) = frame(c);
    match catch(|| run_on(c)) {
        Err(p) => Err(panic_failure(c.json(), &p)),
        Ok(Err(e)) => Err(Failure::new("harness", c.json(), format!("harness: {e}"))),
        Ok(Ok(got)) => {
            let fits = c.len <= c.n;
            match got {
                Got::Delivered(data, port) => {
                    if !fits {
                        return Err(Failure::new("mac-handover", c.json(), format!("a {}-byte frame cannot have reached the MAC through a {}-byte radio buffer, yet a downlink was delivered", c.len, c.n)).with_fp(format!("mac-handover/delivered-although-too-long/{chip}")));
                    }
                    if data != plain || port != 5 {
                        return Err(Failure::new("mac-handover", c.json(), format!("delivered payload (port {port}, {} bytes) differs from the plaintext that was sent ({} bytes)", data.len(), plain.len())).with_fp(format!("mac-handover/wrong-payload/{chip}")));
                    }
                    Ok("delivered")
                }
                Got::NoDownlink(r) | Got::Error(r) if fits => Err(Failure::new("mac-handover", c.json(), format!("an authentic {}-byte downlink reported by the chip at offset {} was not delivered by a device with a {}-byte radio buffer: {r}", c.len, c.off, c.n)).with_fp(format!("mac-handover/{}/{chip}", if c.len == c.n { "frame-fills-buffer-lost" } else { "frame-lost" }))),
                Got::NoDownlink(_) => Ok("too-long:no-downlink"),
                Got::Error(_) => Ok("too-long:error"),
            }
        }
    }
}

pub fn replay(case: &Value) -> Result<(), Failure> {
    let Some(c) = MacCase::from_json(case) else { return Err(Failure::new("bad-replay", case.clone(), "not a C18 hand-over case")) };
    run_case(&c).map(|_| ())
}

pub fn run(ctx: &mut Ctx) {
    let full = ctx.tier == Tier::Thorough;
    ctx.parallel(|ti, n, st| {
        let mut k = 0usize;
        for chip in 0..CHIPS.len() {
            for &nbuf in BUFS.iter() {
                // lengths: everything near the buffer size and the extremes; all of 13..=255 in the thorough tier
                let lens: Vec<usize> = if full { (13..=255).collect() } else { let mut v: Vec<usize> = vec![13, 14, 33, 62, 63, 64, 65, 66, 128, 200, 253, 254, 255]; v.retain(|l| *l <= 255); v };
                for len in lens {
                    let offs: Vec<u8> = if full { vec![0, 1, 0x40, 0x80, (256 - len as i32).rem_euclid(256) as u8, (257 - len as i32).rem_euclid(256) as u8, 0xF0, 0xFF] } else { vec![0, 0x40, (257 - len as i32).rem_euclid(256) as u8, 0xFF] };
                    for off in offs {
                        for confirmed in [false, true] {
                            k += 1;
                            if k % n != ti {
                                continue;
                            }
                            let c = MacCase { chip, n: nbuf, len, off, confirmed };
                            st.eval();
                            // non-trivial: within two bytes of the radio buffer size, longer than it, or wrapping in the chip buffer
                            if len + 2 >= nbuf || off as usize + len > 256 {
                                st.nt_distinct();
                            }
                            match run_case(&c) {
                                Ok(o) => {
                                    st.class(&format!("mac-handover:{o}"));
                                    if st.want_sample() && len == nbuf && off == 0xFF {
                                        let mut j = c.json();
                                        j["outcome"] = json!(o);
                                        st.sample(j);
                                    }
                                }
                                Err(f) => st.fail(f),
                            }
                        }
                    }
                }
            }
        }
    });
}
