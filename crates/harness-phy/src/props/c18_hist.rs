//! C18, stateful stage: the judged reception is the LAST step of a history on one driver instance
//! (see props/hist.rs). The chip double keeps the payload length given by SetPacketParams in register
//! 0x0702 like the silicon (and loses it with the rest of the configuration in a sleep without
//! retention / reset), the SX127x double keeps RegPayloadLength; the harness scripts what the chip
//! REPORTS for the last reception (length, start offset) and the oracle is the one of the stateless
//! stage: the fetch returns an error, or exactly the reported (implicit header: the configured) number
//! of bytes taken from the chip's buffer at the reported position, the rest of the caller's buffer untouched.

use super::c18::{judge_fetch, Expect};
use crate::drive::panic_failure;
use crate::props::hist::{self, Hist, Mod, Mode, Op, Outcome, Pkt, RxEnd, KIND, LORA, LORAWAN};
use serde_json::{json, Value};
use verif_core::*;

/// hist::CHIPS indices: SX1262, SX1276, SX1272 (the chips of the stateless stage)
const HCHIPS: [usize; 3] = [1, 4, 5];
const SUFFIX: &str = "/after-history";
const M: Mod = Mod { sf: 2, bw: 7, cr: 0, freq: 868_100_000 };

fn c18_chip(h: &Hist) -> &'static str {
    match hist::family(h.chip) {
        "sx126x" => "sx126x",
        _ => hist::CHIPS[h.chip],
    }
}

/// (packet parameters, reported length, reported offset, buffer size) of a judged reception
fn requested(j: &Op) -> Option<(Pkt, u8, u8, usize)> {
    match j {
        Op::Rx { p, end: RxEnd::Done { len, off }, buf, .. } => Some((*p, *len, *off, *buf as usize)),
        Op::KFetch { p, len, off, buf } => Some((*p, *len, *off, *buf as usize)),
        Op::Rx2 { p, second, buf, .. } => Some((*p, second.0, second.1, *buf as usize)),
        Op::LwRx2 { second, buf, .. } => Some((Pkt::new(false, 255), second.0, second.1, *buf as usize)),
        // the adapter always configures explicit header, maximum 255
        Op::LwRx { end: RxEnd::Done { len, off }, buf, .. } => Some((Pkt::new(false, 255), *len, *off, *buf as usize)),
        _ => None,
    }
}

pub enum HV {
    Ok(&'static str),
    NotJudged(&'static str),
    Fail(Failure),
}

pub fn judge_hist(h: &Hist, out: &Outcome) -> HV {
    let Some((p, len, off, buf)) = requested(h.judged()) else {
        return HV::NotJudged("judged-op-is-no-completed-reception");
    };
    if out.setup_err.is_some() {
        return HV::NotJudged("driver-bring-up-failed");
    }
    let Some(f) = &out.last.fetch else {
        // refused before the receiver was started (SF6 / explicit header, unsupported mode ...)
        return HV::NotJudged("judged-op-refused-before-reception");
    };
    let want = if p.implicit { p.len as usize } else { len as usize };
    let case = || h.json("C18");
    let x = Expect { case: &case, chip: c18_chip(h), want, off, size: buf.min(256), implicit: p.implicit, fp_suffix: SUFFIX };
    let first = match judge_fetch(&x, hist::as_fetch(f), &f.store) {
        Ok(o) => o,
        Err(mut e) => {
            e.detail = format!("{} as the last step of the history: {}", hist::op_name(h.judged()), e.detail);
            return HV::Fail(e);
        }
    };
    // the same reception fetched once more: the statement holds for every fetch
    if let Some(f2) = &out.last.fetch2 {
        let x2 = Expect { fp_suffix: "/after-history/second-fetch", ..x };
        if let Err(mut e) = judge_fetch(&x2, hist::as_fetch(f2), &f2.store) {
            e.detail = format!("{}: fetching the same reception once more with get_rx_result: {}", hist::op_name(h.judged()), e.detail);
            return HV::Fail(e);
        }
    }
    HV::Ok(first)
}

pub fn run_hist(h: &Hist) -> (Option<Outcome>, HV) {
    match catch(|| hist::run(h)) {
        Ok(out) => {
            let v = judge_hist(h, &out);
            (Some(out), v)
        }
        Err(pm) => (None, HV::Fail(panic_failure(h.json("C18"), &pm))),
    }
}

pub fn replay(case: &Value) -> Result<(), Failure> {
    let Some(h) = Hist::from_json(case) else {
        return Err(Failure::new("bad-replay", case.clone(), "not a C18 history"));
    };
    match run_hist(&h).1 {
        HV::Fail(f) => Err(f),
        _ => Ok(()),
    }
}

/// the property's non-triviality rule on the judged reception (same as the stateless stage)
fn nontrivial(j: &Op) -> bool {
    match requested(j) {
        Some((p, len, off, buf)) => {
            let l = if p.implicit { p.len as usize } else { len as usize };
            l > buf || off as usize + l > 256 || l == 0
        }
        None => false,
    }
}

fn requests(level: usize) -> Vec<Op> {
    let mut v = vec![];
    // packet parameters: implicit header with several lengths, explicit header (maximum 255 and a lower maximum);
    // CRC, IQ inversion and preamble length vary along (they share registers / one command with the length)
    let pkts = [
        Pkt::new(true, 0),
        Pkt::new(true, 1).with(false, true, 0),
        Pkt::new(true, 12).with(true, false, 12),
        Pkt::new(true, 64).with(false, false, 65535),
        Pkt::new(true, 200),
        Pkt::new(true, 255).with(false, true, 6),
        Pkt::new(false, 255),
        Pkt::new(false, 255).with(false, false, 65535),
        Pkt::new(false, 64).with(true, false, 0),
    ];
    for p in pkts {
        // what the chip reports: in implicit mode a decoy length, in explicit mode the length that counts
        let reports: Vec<(u8, u8)> = if p.implicit { vec![(p.len.wrapping_add(7), 0), (0, 0xF0)] } else { vec![(13, 0), (200, 0xF0), (0, 3), (255, 1)] };
        for (len, off) in reports {
            // caller buffers: ample, small, and exactly / one less than / one more than the length that counts
            let want = if p.implicit { p.len as u16 } else { len as u16 };
            let mut bufs: Vec<u16> = vec![256, 64, want, want.saturating_sub(1), (want + 1).min(256)];
            bufs.sort();
            bufs.dedup();
            for buf in bufs {
                match level {
                    KIND => v.push(Op::KFetch { p, len, off, buf }),
                    LORA => {
                        v.push(Op::Rx { m: M, p, mode: Mode::Single(20), end: RxEnd::Done { len, off }, buf });
                        if buf >= 64 {
                            v.push(Op::Rx { m: M, p, mode: Mode::Continuous, end: RxEnd::Done { len, off }, buf });
                            // second reception of one start_rx (the buffer pointer has moved on), fetched twice
                            v.push(Op::Rx2 { m: M, p, first: (if p.implicit { p.len } else { 21 }, off.wrapping_sub(21)), second: (len, off), buf, refetch: true });
                        }
                    }
                    _ => {
                        if !p.implicit && p.len == 255 && p.crc {
                            v.push(Op::LwRx { m: M, ms: Some(20), end: RxEnd::Done { len, off }, buf });
                            v.push(Op::LwRx { m: M, ms: None, end: RxEnd::Done { len, off }, buf });
                            v.push(Op::LwRx2 { m: M, first: (21, off.wrapping_sub(21)), second: (len, off), buf });
                        }
                    }
                }
            }
        }
    }
    v
}

fn account(h: &Hist, out: &Option<Outcome>, v: HV, st: &mut Stats, enumerated: bool, min_hash_len: usize) {
    st.eval();
    st.class(&format!("history:{}:{}", hist::LEVELS[h.level], hist::CHIPS[h.chip]));
    st.class(&format!("history:prefix-len:{}", (h.ops.len() - 1).min(9)));
    for f in hist::prefix_features(h) {
        st.class(&format!("history:prefix-has:{f}"));
    }
    if let Some(o) = out {
        if o.prefix_errs.iter().any(|e| e.is_some()) {
            st.class("history:some-prefix-op-returned-an-error");
        }
        if o.power_ons > 1 {
            st.class("history:chip-forgot-its-configuration-after-bring-up");
        }
    }
    // non-trivial: judged after a non-empty prefix (the stateless stage owns the empty one)
    if !matches!(v, HV::NotJudged(_)) && h.ops.len() > 1 {
        if nontrivial(h.judged()) {
            st.class("history:judged-reception-is-a-boundary-case");
        }
        if enumerated {
            st.nt_distinct();
        } else if h.ops.len() > min_hash_len {
            st.nt_hash(hash_value(&h.json("C18")));
        }
    }
    match v {
        HV::Ok(o) => {
            st.class(&format!("history:judged:{o}"));
            if st.samples.len() < 7 && h.ops.len() == 3 && hash_value(&h.json("C18")) % 499 == 1 {
                let mut j = h.json("C18");
                j["outcome"] = json!(o);
                st.sample(j);
            }
        }
        HV::NotJudged(why) => {
            let err = out.as_ref().and_then(|o| o.setup_err.clone().or(o.last.err.clone())).unwrap_or_default();
            st.class(&format!("history:not-judged:{why}:{}:{}:{err}", hist::LEVELS[h.level], hist::CHIPS[h.chip]))
        }
        HV::Fail(f) => st.fail(f),
    }
}

pub const RULE: &str = " STATEFUL STAGE (props/hist.rs; this part uses VERIF_SEED for its random histories): the judged reception is the last step of a history executed on ONE driver instance over ONE chip double (SX1262, SX1276, SX1272) that keeps the SetPacketParams payload length in register 0x0702 / RegPayloadLength like the silicon and forgets it with the rest of the configuration in a sleep without retention or a reset; the chip reports (length, offset) for the last reception and the fetch is judged by the same oracle as above (error, or exactly the reported / configured number of bytes from the reported position, canary intact). Judged receptions: implicit header with configured lengths 0, 1, 12, 64, 200, 255 (reported length a decoy) and explicit header (maximum 255 and 64; reported 13, 200 at offset 0xF0 wrapping, 0, 255 at offset 1), with CRC on/off, IQ inverted or not and preamble lengths 0 / 6 / 8 / 12 / 65535 varying along, x caller buffers 256, 64 and exactly / one less / one more than the length that counts, through RadioKind set_packet_params+get_rx_payload, LoRa prepare_for_rx+rx (Single, Continuous), LoRa prepare_for_rx + ONE start_rx + TWO receptions completed by complete_rx (the second one, at an advanced buffer pointer, is judged, and fetched a second time through get_rx_result: both fetches must satisfy the oracle), LorawanRadio setup_rx+rx_single / rx_continuous and one setup_rx followed by two rx_continuous. ENUMERATED: every prefix of depth 0..=2 over an alphabet built relative to the judged reception: the same reception completed / timed out / prepared but never started, receptions with OTHER packet parameters (another implicit length, the other header mode), transmissions (which reprogram the packet length), listen, CAD, rx_switch_channel, sleep warm+cold, init / reset, and at the RadioKind level the individual set_* / do_* calls. RANDOM: proptest histories of 1..=8 prefix operations (shrinking). Non-trivial (stateful stage) = judged after a non-empty prefix (enumerated: distinct by construction; random: by hash when longer than every enumerated history).";

pub fn stage(ctx: &mut Ctx) {
    let full = ctx.tier == Tier::Thorough;
    let seed = ctx.seed;
    // keep room for samples of this stage (the engine keeps the first 8)
    ctx.stats.samples.truncate(4);
    ctx.parallel(|ti, n, st| {
        let mut job = 0usize;
        for &chip in HCHIPS.iter() {
            for level in [KIND, LORA, LORAWAN] {
                for j in requests(level) {
                    job += 1;
                    if job % n != ti {
                        continue;
                    }
                    for pre in hist::prefixes(level, &j, 2) {
                        let mut ops = pre;
                        ops.push(j);
                        let h = Hist { chip, board: 0, level, ops };
                        let (out, v) = run_hist(&h);
                        account(&h, &out, v, st, true, 0);
                    }
                }
            }
        }
    });
    let cases: u32 = if full { 60_000 } else { 1_500 };
    ctx.parallel(|ti, _n, st| {
        let reqs: Vec<Vec<Op>> = [KIND, LORA, LORAWAN].iter().map(|l| requests(*l)).collect();
        let strat = (0usize..HCHIPS.len() * 3, 0u8..2, hist::strategy(10_000, 8));
        let f = run_proptest(strat, cases, seed ^ 0xC18_0000 ^ ((ti as u64) << 40), st, |(combo, board, (ri, aops)), st| {
            let chip = HCHIPS[combo % HCHIPS.len()];
            let level = combo / HCHIPS.len();
            let j = reqs[level][ri % reqs[level].len()];
            let h = hist::build(level, chip, *board, &j, aops);
            let (out, v) = run_hist(&h);
            let fail = if let HV::Fail(f) = &v { Some(f.clone()) } else { None };
            account(&h, &out, v, st, false, 3);
            match fail {
                Some(f) => Err(f),
                None => Ok(()),
            }
        });
        if let Some(f) = f {
            st.fail(f);
        }
    });
}
