//! C18 — reading a received packet never overruns the caller's buffer (exhaustive enumeration).
//!
//! The chip double's 256-byte data buffer / FIFO holds a position-dependent pattern and wraps at
//! 256 like the silicon. The harness scripts what the chip reports after a reception: payload
//! length, start offset / FIFO address, status byte (SX126x) or interrupt flags, and lets the
//! driver fetch the packet into a canary-filled caller buffer through
//!   kind                   RadioKind::set_packet_params + RadioKind::get_rx_payload
//!   lora-rx                LoRa::prepare_for_rx + LoRa::rx (= start_rx + complete_rx)
//!   lora-get_rx_result     LoRa::prepare_for_rx + start_rx + get_rx_result
//!   lorawan-rx_single      LorawanRadio::setup_rx(Single) + rx_single
//!   lorawan-rx_continuous  LorawanRadio::setup_rx(Continuous) + rx_continuous
//!
//! Oracle (the property statement): no panic; the result is an error, or Ok(len) with len equal
//! to the reported length (implicit header: the configured length), len <= buffer size,
//! buffer[..len] == chip bytes from the reported position (wrapping), buffer[len..] untouched.
//! One addition: an Err(PayloadSizeMismatch(l, n)) with l <= n contradicts itself (the packet fits).

use crate::drive::chip126x::{IRQ_CRC_ERR, IRQ_HEADER_VALID, IRQ_PREAMBLE_DETECTED, IRQ_RX_DONE, IRQ_TIMEOUT, STATUS_OK};
use crate::drive::chip127x::{
    Kind, IRQ_PAYLOAD_CRC_ERROR, IRQ_RX_DONE as IRQ127_RX_DONE, IRQ_RX_TIMEOUT, IRQ_VALID_HEADER, REG_FIFO_RX_CURRENT_ADDR, REG_IRQ_FLAGS, REG_RX_NB_BYTES,
};
use crate::drive::rig::{self, C126, C127};
use crate::drive::{block_on, panic_failure, with_xfer_budget, Delay, Iv, XFER_HANG_MSG};
use lora_modulation::{Bandwidth, BaseBandModulationParams, CodingRate, SpreadingFactor};
use lora_phy::lorawan_radio::LorawanRadio;
use lora_phy::mod_params::{ModulationParams, RadioError};
use lora_phy::mod_traits::RadioKind;
use lora_phy::sx126x::Sx1262;
use lora_phy::{LoRa, RxMode};
use lorawan_device::async_device::radio::{PhyRxTx, RfConfig, RxConfig, RxMode as LwRxMode, RxStatus};
use serde_json::{json, Value};
use verif_core::*;

pub const CHIPS: [&str; 3] = ["sx126x", "sx1276", "sx1272"];
pub const PATHS: [&str; 7] = ["kind", "lora-rx", "lora-get_rx_result", "lorawan-rx_single", "lorawan-rx_continuous", "lora-second-reception", "lora-fetch-twice"];
pub const BUF_SIZES: [usize; 6] = [0, 1, 12, 64, 255, 256];
pub const CANARY: u8 = 0xA5;
/// largest caller buffer exercised
pub const BIG: usize = 1024;
/// preamble lengths of the enumerated cases (packet parameters vary with the offset index)
pub const PREAMBLES: [u16; 4] = [8, 0, 65_535, 12];
const FREQ: u32 = 868_100_000;

/// position-dependent content of the chip buffer; never equal to the canary
pub fn pat(i: usize) -> u8 {
    let v = (i as u8).wrapping_mul(167).wrapping_add(13);
    if v == CANARY {
        0x5A
    } else {
        v
    }
}

#[derive(Debug, Clone, Copy, PartialEq)]
pub struct Case {
    pub chip: usize,
    pub path: usize,
    pub implicit: bool,
    /// configured payload length (packet parameters); the length that counts in implicit-header mode
    pub cfg_len: u8,
    /// length the chip reports
    pub len: u8,
    /// start offset (SX126x RxStartBufferPointer) / FIFO address (SX127x FifoRxCurrentAddr) the chip reports
    pub off: u8,
    pub buf: usize,
    /// SX126x: status byte returned with every response. SX127x: unused (0)
    pub status: u8,
    /// interrupt flags raised when RX is started (LoRa-level paths), in the chip's own encoding
    pub irq: u16,
    /// RxMode::Continuous instead of Single (lora-* paths)
    pub continuous: bool,
    /// remaining packet parameters (kind and lora-* paths; the adapter fixes CRC on, IQ inverted, preamble 8)
    pub crc: bool,
    pub iq: bool,
    pub pre: u16,
}

impl Case {
    pub fn json(&self) -> Value {
        json!({"kind":"rxfetch","chip":CHIPS[self.chip],"path":PATHS[self.path],"implicit_header":self.implicit,"configured_len":self.cfg_len,"reported_len":self.len,
               "reported_offset":self.off,"buffer_size":self.buf,"status":self.status,"irq_flags":self.irq,"continuous":self.continuous,
               "crc_on":self.crc,"iq_inverted":self.iq,"preamble":self.pre})
    }
    pub fn from_json(v: &Value) -> Option<Case> {
        Some(Case {
            chip: CHIPS.iter().position(|s| Some(*s) == v["chip"].as_str())?,
            path: PATHS.iter().position(|s| Some(*s) == v["path"].as_str())?,
            implicit: v["implicit_header"].as_bool()?,
            cfg_len: v["configured_len"].as_u64()? as u8,
            len: v["reported_len"].as_u64()? as u8,
            off: v["reported_offset"].as_u64()? as u8,
            buf: (v["buffer_size"].as_u64()? as usize).min(BIG),
            status: v["status"].as_u64().unwrap_or(STATUS_OK as u64) as u8,
            irq: v["irq_flags"].as_u64().unwrap_or(0) as u16,
            continuous: v["continuous"].as_bool().unwrap_or(false),
            crc: v["crc_on"].as_bool().unwrap_or(true),
            iq: v["iq_inverted"].as_bool().unwrap_or(true),
            pre: v["preamble"].as_u64().unwrap_or(8) as u16,
        })
    }
    fn expected_len(&self) -> usize {
        if self.implicit {
            self.cfg_len as usize
        } else {
            self.len as usize
        }
    }
    /// the property's non-triviality rule
    pub fn nontrivial(&self) -> bool {
        let l = self.expected_len();
        l > self.buf || self.off as usize + l > 256 || l == 0 || self.error_status()
    }
    fn error_status(&self) -> bool {
        if self.chip == 0 {
            matches!((self.status >> 1) & 7, 3 | 4 | 5) || (self.path != 0 && self.irq & IRQ_RX_DONE == 0) || self.irq & IRQ_CRC_ERR != 0
        } else {
            self.path != 0 && (self.irq as u8 & IRQ127_RX_DONE == 0 || self.irq as u8 & IRQ_PAYLOAD_CRC_ERROR != 0)
        }
    }
}

/// What one fetch produced.
#[derive(Debug)]
pub enum Fetch {
    Ok(usize),
    Err(String, Option<(usize, usize)>),
    /// adapter reported "timeout, no packet"
    NoPacket,
}

fn err_of(e: RadioError) -> Fetch {
    let mm = if let RadioError::PayloadSizeMismatch(a, b) = e { Some((a, b)) } else { None };
    Fetch::Err(format!("{e:?}"), mm)
}
fn lw_err(e: lora_phy::lorawan_radio::Error) -> Fetch {
    match e {
        lora_phy::lorawan_radio::Error::Radio(r) => err_of(r),
        other => Fetch::Err(format!("{other:?}"), None),
    }
}

/// A per-thread rig: one chip double and the drivers on top of it for the five paths, reused across cases.
pub trait Rig {
    fn fetch(&mut self, c: &Case, buf: &mut [u8]) -> Fetch;
}

struct RigT<RK: RadioKind, S: Fn(&Case, bool)> {
    kind: RK,
    kind_mp: ModulationParams,
    lora: LoRa<RK, Delay>,
    lora_iv: Iv,
    lw: LorawanRadio<RK, Delay, 22>,
    lw_iv: Iv,
    lw_mode: Option<bool>,
    script: S,
}

impl<RK: RadioKind, S: Fn(&Case, bool)> Rig for RigT<RK, S> {
    fn fetch(&mut self, c: &Case, buf: &mut [u8]) -> Fetch {
        if PATHS[c.path] == "lora-second-reception" {
            // ONE start_rx in continuous mode, TWO receptions: the chip first reports an earlier packet (21 bytes, or the
            // configured length, ending where the judged one starts), then raises RxDone again for the judged one
            let first = Case { len: if c.implicit { c.cfg_len } else { 21 }, off: c.off.wrapping_sub(21), irq: if c.chip == 0 { IRQ_RX_DONE } else { IRQ127_RX_DONE as u16 }, ..*c };
            (self.script)(&first, false);
            self.lora_iv.waits.set(0);
            let mp = match self.lora.create_modulation_params(SpreadingFactor::_7, Bandwidth::_125KHz, CodingRate::_4_5, FREQ) {
                Ok(m) => m,
                Err(e) => return err_of(e),
            };
            let pp = match self.lora.create_rx_packet_params(c.pre, c.implicit, c.cfg_len, c.crc, c.iq, &mp) {
                Ok(p) => p,
                Err(e) => return err_of(e),
            };
            if let Err(e) = block_on(self.lora.prepare_for_rx(RxMode::Continuous, &mp, &pp)) {
                return err_of(e);
            }
            if let Err(e) = block_on(self.lora.start_rx()) {
                return err_of(e);
            }
            let mut scratch = [0u8; 256];
            if let Err(e) = block_on(self.lora.complete_rx(&pp, &mut scratch)) {
                return err_of(e);
            }
            (self.script)(c, true);
            return match block_on(self.lora.complete_rx(&pp, buf)) {
                Ok((l, _)) => Fetch::Ok(l as usize),
                Err(e) => err_of(e),
            };
        }
        (self.script)(c, false);
        match PATHS[c.path] {
            "kind" => {
                let pp = match self.kind.create_packet_params(c.pre, c.implicit, c.cfg_len, c.crc, c.iq, &self.kind_mp) {
                    Ok(p) => p,
                    Err(e) => return err_of(e),
                };
                // always (re)program the packet parameters: the other paths share the chip double
                if let Err(e) = block_on(self.kind.set_packet_params(&pp)) {
                    return err_of(e);
                }
                match block_on(self.kind.get_rx_payload(&pp, buf)) {
                    Ok(l) => Fetch::Ok(l as usize),
                    Err(e) => err_of(e),
                }
            }
            "lora-rx" | "lora-get_rx_result" | "lora-fetch-twice" => {
                self.lora_iv.waits.set(0);
                let mp = match self.lora.create_modulation_params(SpreadingFactor::_7, Bandwidth::_125KHz, CodingRate::_4_5, FREQ) {
                    Ok(m) => m,
                    Err(e) => return err_of(e),
                };
                let pp = match self.lora.create_rx_packet_params(c.pre, c.implicit, c.cfg_len, c.crc, c.iq, &mp) {
                    Ok(p) => p,
                    Err(e) => return err_of(e),
                };
                let mode = if c.continuous { RxMode::Continuous } else { RxMode::Single(20) };
                if let Err(e) = block_on(self.lora.prepare_for_rx(mode, &mp, &pp)) {
                    return err_of(e);
                }
                let r = if PATHS[c.path] == "lora-rx" {
                    block_on(self.lora.rx(&pp, buf))
                } else if PATHS[c.path] == "lora-fetch-twice" {
                    // the same reception fetched twice: the second fetch is the judged one
                    match block_on(self.lora.start_rx()) {
                        Ok(()) => {
                            let mut scratch = [0u8; 256];
                            let n = buf.len();
                            match block_on(self.lora.get_rx_result(&pp, &mut scratch[..n])) {
                                Ok(_) => block_on(self.lora.get_rx_result(&pp, buf)),
                                Err(e) => Err(e),
                            }
                        }
                        Err(e) => Err(e),
                    }
                } else {
                    match block_on(self.lora.start_rx()) {
                        Ok(()) => block_on(self.lora.get_rx_result(&pp, buf)),
                        Err(e) => Err(e),
                    }
                };
                match r {
                    Ok((l, _)) => Fetch::Ok(l as usize),
                    Err(e) => err_of(e),
                }
            }
            _ => {
                self.lw_iv.waits.set(0);
                let single = PATHS[c.path] == "lorawan-rx_single";
                let rf = RfConfig { frequency: FREQ, bb: BaseBandModulationParams::new(SpreadingFactor::_7, Bandwidth::_125KHz, CodingRate::_4_5), max_payload_len: 255 };
                // the MAC sets a window up once and may call rx again: do the same (set up when the mode changes,
                // and after any error, which puts the radio back to standby)
                if self.lw_mode != Some(single) {
                    let mode = if single { LwRxMode::Single { ms: 20 } } else { LwRxMode::Continuous };
                    if let Err(e) = block_on(self.lw.setup_rx(RxConfig { rf, mode })) {
                        return lw_err(e);
                    }
                    self.lw_mode = Some(single);
                }
                if single {
                    match block_on(self.lw.rx_single(buf)) {
                        Ok(RxStatus::Rx(l, _)) => Fetch::Ok(l),
                        Ok(RxStatus::RxTimeout) => {
                            self.lw_mode = None;
                            Fetch::NoPacket
                        }
                        Err(e) => {
                            self.lw_mode = None;
                            lw_err(e)
                        }
                    }
                } else {
                    match block_on(self.lw.rx_continuous(buf)) {
                        Ok((l, _)) => Fetch::Ok(l),
                        Err(e) => {
                            self.lw_mode = None;
                            lw_err(e)
                        }
                    }
                }
            }
        }
    }
}

fn fill126(ch: &C126) {
    let mut c = ch.borrow_mut();
    for i in 0..256 {
        c.buffer[i] = pat(i);
    }
    c.pkt_status = [90, 0x14, 88];
}
fn fill127(ch: &C127) {
    let mut c = ch.borrow_mut();
    for i in 0..256 {
        c.fifo[i] = pat(i);
    }
    c.regs[0x19] = 0x14;
    c.regs[0x1A] = 70;
}

fn script126(ch: &C126, c: &Case, raise_now: bool) {
    let mut m = ch.borrow_mut();
    m.status = c.status;
    m.rx_len = c.len;
    m.rx_start = c.off;
    // raise_now: the receiver is already running, the flags come up for another reception
    m.irq = if raise_now { c.irq } else { 0 };
    m.irq_on_rx = c.irq;
    // the driver never writes the data buffer on an RX path; if it did, the content check would see it
}
fn script127(ch: &C127, c: &Case, raise_now: bool) {
    let mut m = ch.borrow_mut();
    m.regs[REG_RX_NB_BYTES as usize] = c.len;
    m.regs[REG_FIFO_RX_CURRENT_ADDR as usize] = c.off;
    m.regs[REG_IRQ_FLAGS as usize] = if raise_now { c.irq as u8 } else { 0 };
    m.irq_on_rx = c.irq as u8;
}

fn build<RK: RadioKind>(mk: &dyn Fn() -> (RK, Iv), script: impl Fn(&Case, bool) + 'static) -> Result<Box<dyn Rig>, String>
where
    RK: 'static,
{
    let (kind, _) = mk();
    let kind_mp = kind.create_modulation_params(SpreadingFactor::_7, Bandwidth::_125KHz, CodingRate::_4_5, FREQ).map_err(|e| format!("{e:?}"))?;
    let (r2, lora_iv) = mk();
    let lora = block_on(LoRa::new(r2, true, Delay)).map_err(|e| format!("LoRa::new {e:?}"))?;
    let (r3, lw_iv) = mk();
    let lw: LorawanRadio<RK, Delay, 22> = block_on(LoRa::new(r3, true, Delay)).map_err(|e| format!("LoRa::new {e:?}"))?.into();
    Ok(Box::new(RigT { kind, kind_mp, lora, lora_iv, lw, lw_iv, lw_mode: None, script }))
}

/// a fresh rig for a chip; every driver instance shares the one chip double
pub fn make_rig(chip: usize) -> Result<Box<dyn Rig>, String> {
    match CHIPS[chip] {
        "sx126x" => {
            let ch = rig::new126();
            fill126(&ch);
            let c2 = ch.clone();
            let mk = move || rig::sx126x(&c2, Sx1262, false);
            let c3 = ch.clone();
            build(&mk, move |c, r| script126(&c3, c, r))
        }
        "sx1276" => {
            let ch = rig::new127(Kind::Sx1276);
            fill127(&ch);
            let c2 = ch.clone();
            let mk = move || rig::sx1276(&c2, false, false);
            let c3 = ch.clone();
            build(&mk, move |c, r| script127(&c3, c, r))
        }
        _ => {
            let ch = rig::new127(Kind::Sx1272);
            fill127(&ch);
            let c2 = ch.clone();
            let mk = move || rig::sx1272(&c2, false, false);
            let c3 = ch.clone();
            build(&mk, move |c, r| script127(&c3, c, r))
        }
    }
}

/// runs one case on a rig and judges it
pub fn run_case(rig: &mut dyn Rig, c: &Case) -> Result<&'static str, Failure> {
    if c.buf > 256 {
        // caller buffers larger than any LoRa packet
        let mut store = [CANARY; BIG];
        let size = c.buf.min(BIG);
        let r = catch(|| with_xfer_budget(XFER_BUDGET_PER_FETCH, || rig.fetch(c, &mut store[..size])));
        return match r {
            Err(p) if p.contains(XFER_HANG_MSG) => Err(does_not_return(c)),
            Err(p) => Err(panic_failure(c.json(), &p)),
            Ok(f) => judge_fetch(&Expect { case: &|| c.json(), chip: CHIPS[c.chip], want: c.expected_len(), off: c.off, size, implicit: c.implicit, fp_suffix: "" }, f, &store),
        };
    }
    let mut store = [CANARY; 256];
    let size = c.buf.min(256);
    let r = catch(|| with_xfer_budget(XFER_BUDGET_PER_FETCH, || rig.fetch(c, &mut store[..size])));
    match r {
        Err(p) if p.contains(XFER_HANG_MSG) => Err(does_not_return(c)),
        Err(p) => Err(panic_failure(c.json(), &p)),
        Ok(f) => {
            // the adapter hands the MAC exactly the bytes of a packet the chip reports as received: a clean
            // reception (RxDone, no error status, no CRC error) that fits the caller's buffer may not be
            // reported as "nothing heard"
            if matches!(f, Fetch::NoPacket) && !c.error_status() && c.expected_len() <= size {
                return Err(Failure::new("rx-fetch", c.json(), format!("the chip reported a clean reception of {} bytes that fit the {size}-byte buffer; the adapter reported that nothing was received", c.expected_len())).with_fp(format!("rx-fetch/packet-not-handed-over/{}", CHIPS[c.chip])));
            }
            judge_fetch(&Expect { case: &|| c.json(), chip: CHIPS[c.chip], want: c.expected_len(), off: c.off, size, implicit: c.implicit, fp_suffix: "" }, f, &store)
        }
    }
}

/// SPI exchanges one fetch may take (a reception and its fetch need a few dozen)
const XFER_BUDGET_PER_FETCH: u32 = 5_000;

fn does_not_return(c: &Case) -> Failure {
    Failure::new("rx-fetch", c.json(), "the call kept exchanging with the chip (more than 5000 SPI transactions) and did not return: neither a packet nor an error".to_string()).with_fp(format!("rx-fetch/does-not-return/{}", CHIPS[c.chip]))
}

/// what a fetch has to deliver: the oracle of the property statement, independent of how the fetch was reached
pub struct Expect<'a> {
    /// case file a failure carries (built only when there is a failure)
    pub case: &'a dyn Fn() -> Value,
    pub chip: &'a str,
    /// reported length (explicit header) / configured length (implicit header)
    pub want: usize,
    /// reported start offset / FIFO address
    pub off: u8,
    /// size of the caller's buffer
    pub size: usize,
    pub implicit: bool,
    /// appended to every fingerprint ("" for the stateless enumeration)
    pub fp_suffix: &'a str,
}

pub fn judge_fetch(x: &Expect<'_>, f: Fetch, store: &[u8]) -> Result<&'static str, Failure> {
    let (chip, size, sfx) = (x.chip, x.size, x.fp_suffix);
    match f {
        Fetch::NoPacket => Ok("no-packet"),
        Fetch::Err(text, mm) => {
            if let Some((a, b)) = mm {
                if a <= b {
                    return Err(Failure::new("rx-fetch", (x.case)(), format!("refused with {text} although {a} bytes fit a {b}-byte buffer")).with_fp(format!("rx-fetch/fits-but-size-mismatch/{chip}{sfx}")));
                }
            }
            Ok("error")
        }
        Fetch::Ok(l) => {
            let want = x.want;
            if l > size {
                return Err(Failure::new("rx-fetch", (x.case)(), format!("returned length {l} exceeds the caller's {size}-byte buffer")).with_fp(format!("rx-fetch/len-exceeds-buffer/{chip}{sfx}")));
            }
            if l != want {
                let fp = if x.implicit { "rx-fetch/implicit-length-not-configured" } else { "rx-fetch/length-not-reported" };
                return Err(Failure::new("rx-fetch", (x.case)(), format!("returned length {l}, expected {want} ({})", if x.implicit { "configured length, implicit header" } else { "reported length" })).with_fp(format!("{fp}/{chip}{sfx}")));
            }
            for i in 0..l {
                let w = pat((x.off as usize + i) & 0xFF);
                if store[i] != w {
                    return Err(Failure::new("rx-fetch", (x.case)(), format!("byte {i} is 0x{:02x}, chip buffer holds 0x{w:02x} at position {}", store[i], (x.off as usize + i) & 0xFF)).with_fp(format!("rx-fetch/wrong-bytes/{chip}{sfx}")));
                }
            }
            for (i, b) in store.iter().enumerate().skip(l) {
                if *b != CANARY {
                    return Err(Failure::new("rx-fetch", (x.case)(), format!("byte {i} beyond the returned length {l} was overwritten with 0x{b:02x}")).with_fp(format!("rx-fetch/touched-beyond-length/{chip}{sfx}")));
                }
            }
            Ok("ok")
        }
    }
}

/// One fetch on a fresh rig with ONE interrupted SPI exchange (exchange number `after` of the fetch, cut after
/// `octets` octets reached the chip): the statement's alternative still holds — an error, or exactly the reported
/// bytes. Ok((outcome, exchanges the fetch made)).
pub fn run_cut_case(c: &Case, after: u32, octets: usize) -> Result<(&'static str, u32), Failure> {
    let case = || {
        let mut v = c.json();
        v["spi_cut"] = json!([after, octets]);
        v
    };
    let mut rig = match catch(|| make_rig(c.chip)) {
        Ok(Ok(r)) => r,
        Ok(Err(e)) => return Err(Failure::new("rx-fetch", case(), format!("driver initialisation failed: {e}")).with_fp("rx-fetch/init")),
        Err(p) => return Err(panic_failure(case(), &p)),
    };
    let mut store = [CANARY; 256];
    let size = c.buf.min(256);
    let r = catch(|| with_xfer_budget(XFER_BUDGET_PER_FETCH, || crate::drive::with_spi_cut(after, octets, || rig.fetch(c, &mut store[..size]))));
    match r {
        Err(p) if p.contains(XFER_HANG_MSG) => Err(does_not_return(c)),
        Err(p) => Err(panic_failure(case(), &p)),
        Ok((f, seen)) => judge_fetch(&Expect { case: &case, chip: CHIPS[c.chip], want: c.expected_len(), off: c.off, size, implicit: c.implicit, fp_suffix: "/bus-fault-during-fetch" }, f, &store).map(|o| (o, seen)),
    }
}

/// every exchange of a fetch interrupted once, after 0, 1, 2, 3, half and all-but-one of its octets
fn bus_fault_stage(ctx: &mut Ctx) {
    ctx.parallel(|ti, n, st| {
        let mut k = 0usize;
        for chip in 0..CHIPS.len() {
            let done: u16 = if chip == 0 { IRQ_RX_DONE | IRQ_HEADER_VALID | IRQ_PREAMBLE_DETECTED } else { (IRQ127_RX_DONE | IRQ_VALID_HEADER) as u16 };
            for path in [0usize, 1, 3] {
                for (len, off) in [(13u8, 0u8), (64, 200), (255, 1), (5, 250), (40, 16)] {
                    for implicit in [false, true] {
                        if implicit && path == 3 {
                            continue;
                        }
                        k += 1;
                        if k % n != ti {
                            continue;
                        }
                        let c = Case { chip, path, implicit, cfg_len: if implicit { len } else { 255 }, len, off, buf: 256, status: STATUS_OK, irq: done, continuous: false, crc: true, iq: true, pre: 8 };
                        // fault-free length of the fetch in exchanges
                        let total = match run_cut_case(&c, u32::MAX, 0) {
                            Ok((_, seen)) => seen,
                            Err(f) => {
                                st.fail(f);
                                continue;
                            }
                        };
                        for after in 0..total {
                            for octets in [0usize, 1, 2, 3, len as usize / 2, len as usize, usize::MAX] {
                                st.eval();
                                st.nt_distinct();
                                match run_cut_case(&c, after, octets) {
                                    Ok((o, _)) => st.class(&format!("bus-fault-during-fetch:{}:{o}", CHIPS[chip])),
                                    Err(f) => st.fail(f),
                                }
                            }
                        }
                    }
                }
            }
        }
    });
}

pub fn replay(case: &Value, _kf: &KnownFindings) -> Result<(), Failure> {
    if let (Some(cut), Some(c)) = (case["spi_cut"].as_array(), Case::from_json(case)) {
        let after = cut.first().and_then(|v| v.as_u64()).unwrap_or(0) as u32;
        let octets = cut.get(1).and_then(|v| v.as_u64()).unwrap_or(0).min(usize::MAX as u64) as usize;
        return run_cut_case(&c, after, octets).map(|_| ());
    }
    if case["kind"] == "rxfetch-mac" {
        return super::c18_mac::replay(case);
    }
    if case["kind"] == "history" {
        return super::c18_hist::replay(case);
    }
    let Some(c) = Case::from_json(case) else {
        return Err(Failure::new("bad-replay", case.clone(), "not a C18 case"));
    };
    let mut rig = match catch(|| make_rig(c.chip)) {
        Ok(Ok(r)) => r,
        Ok(Err(e)) => return Err(Failure::new("rx-fetch", case.clone(), format!("driver initialisation failed: {e}")).with_fp("rx-fetch/init")),
        Err(p) => return Err(panic_failure(case.clone(), &p)),
    };
    run_case(rig.as_mut(), &c).map(|_| ())
}

/// status bytes: all 8 command-status values in STBY_RC, the same in RX mode for the good ones, and the two constant bytes
fn statuses(full: bool) -> Vec<u8> {
    if full {
        let mut v: Vec<u8> = (0..8u8).map(|s| (2 << 4) | (s << 1)).collect();
        v.extend([(5 << 4) | (2 << 1), (5 << 4) | (5 << 1), 0x00, 0xFF]);
        v
    } else {
        vec![STATUS_OK, (2 << 4) | (5 << 1), (2 << 4) | (3 << 1)]
    }
}

fn irq_sets(chip: usize, full: bool) -> Vec<u16> {
    if chip == 0 {
        let mut v = vec![IRQ_RX_DONE | IRQ_HEADER_VALID | IRQ_PREAMBLE_DETECTED, IRQ_RX_DONE | IRQ_CRC_ERR];
        if full {
            v.extend([IRQ_RX_DONE, IRQ_RX_DONE | IRQ_TIMEOUT, IRQ_TIMEOUT]);
        }
        v
    } else {
        let mut v = vec![(IRQ127_RX_DONE | IRQ_VALID_HEADER) as u16, (IRQ127_RX_DONE | IRQ_PAYLOAD_CRC_ERROR) as u16];
        if full {
            v.extend([IRQ127_RX_DONE as u16, (IRQ127_RX_DONE | IRQ_RX_TIMEOUT) as u16, IRQ_RX_TIMEOUT as u16]);
        }
        v
    }
}

/// (a) every caller buffer size 0..=256 and 257 / 300 / 512 / 1024 x every length x offsets {0, 255, the one that makes the packet end one byte
/// past the wrap} x header mode, through RadioKind::get_rx_payload and LoRa::rx;
/// (b) every length x every offset x buffers {256, 12, exactly the length} x header mode through ONE start_rx followed by
/// TWO completed receptions (continuous mode; the second, at its own start pointer, is judged) and through two
/// get_rx_result calls for one reception (the second is judged).
fn extra_stage(ctx: &mut Ctx) {
    ctx.parallel(|ti, n, st| {
        for chip in 0..CHIPS.len() {
            let mut rig = match catch(|| make_rig(chip)) {
                Ok(Ok(r)) => r,
                _ => continue, // reported by the main stage
            };
            let done: u16 = if chip == 0 { IRQ_RX_DONE | IRQ_HEADER_VALID | IRQ_PREAMBLE_DETECTED } else { (IRQ127_RX_DONE | IRQ_VALID_HEADER) as u16 };
            let go = |c: Case, class: &str, st: &mut Stats, rig: &mut Box<dyn Rig>| {
                st.eval();
                if c.nontrivial() {
                    st.nt_distinct();
                }
                match run_case(rig.as_mut(), &c) {
                    Ok(outcome) => st.class(&format!("{class}:{outcome}")),
                    Err(f) => {
                        if f.rule == "no-panic" || f.rule == "harness-bug" {
                            if let Ok(Ok(r)) = catch(|| make_rig(c.chip)) {
                                *rig = r;
                            }
                        }
                        st.fail(f)
                    }
                }
            };
            for l in 0..=255u8 {
                if (l as usize + chip) % n != ti {
                    continue;
                }
                for implicit in [false, true] {
                    // implicit: configured length l, reported decoy l+1; explicit: reported l, configured maximum 255
                    let (cfg_len, len) = if implicit { (l, l.wrapping_add(1)) } else { (255, l) };
                    let pk = |off: u8| (off & 1 == 0, off & 2 == 0, PREAMBLES[(off >> 2) as usize & 3]);
                    // (a) every buffer size
                    for off in [0u8, 255, (257 - l as u16) as u8] {
                        let (crc, iq, pre) = pk(off ^ l);
                        for buf in (0..=256usize).chain([257, 300, 512, 1024]) {
                            go(Case { chip, path: 0, implicit, cfg_len, len, off, buf, status: STATUS_OK, irq: 0, continuous: false, crc, iq, pre }, "every-buffer-size:kind", st, &mut rig);
                            go(Case { chip, path: 1, implicit, cfg_len, len, off, buf, status: STATUS_OK, irq: done, continuous: buf % 2 == 1, crc, iq, pre }, "every-buffer-size:lora-rx", st, &mut rig);
                        }
                    }
                    // (b) second reception / second fetch
                    for off in 0..=255u8 {
                        let (crc, iq, pre) = pk(off);
                        let mut bufs = vec![256usize, 12, l as usize];
                        bufs.dedup();
                        for buf in bufs {
                            go(Case { chip, path: 5, implicit, cfg_len, len, off, buf, status: STATUS_OK, irq: done, continuous: true, crc, iq, pre }, "second-reception-of-one-start_rx", st, &mut rig);
                            go(Case { chip, path: 6, implicit, cfg_len, len, off, buf, status: STATUS_OK, irq: done, continuous: off % 2 == 0, crc, iq, pre }, "same-reception-fetched-twice", st, &mut rig);
                        }
                    }
                }
            }
        }
    });
}

pub fn run(ctx: &mut Ctx) {
    let full = ctx.tier == Tier::Thorough;
    ctx.level = "exploration".into();
    // the quick tier takes 3 of the status bytes and 2 of the interrupt-flag sets: only thorough covers the stated space
    ctx.exhaustive = full;
    ctx.rule = format!(
        "(VERIF_SEED only selects the random histories of the stateful stage; everything else is enumerated) STATELESS: exhaustive enumeration on chip doubles (SX1262, SX1276, SX1272) whose 256-byte buffer/FIFO holds a position-dependent pattern and wraps: packet parameters beyond header mode and length vary with the offset index on the RadioKind and LoRa paths (CRC on/off, IQ inverted or not, preamble 8 / 0 / 65535 / 12; the adapter fixes them); explicit header: every reported length 0..=255 (configured maximum 255, length-1 and length/2) x every offset 0..=255 x caller buffer sizes {{0,1,12,64,255,256}} x {{status bytes (SX126x), kind path}} / {{interrupt-flag sets x Single/Continuous, LoRa::rx and get_rx_result}} / {{LorawanRadio::rx_single, rx_continuous}}; implicit header (kind and LoRa paths): every configured length 0..=255 x every offset x the 6 buffer sizes x decoy reported lengths {{0, 255, configured+1}}. {} EXTRA GRIDS (both tiers): every caller buffer size 0..=256 and 257 / 300 / 512 / 1024 x every length x offsets {{0, 255, wrap by one}} x header mode through get_rx_payload and LoRa::rx; every length x every offset x buffers {{256, 12, exactly the length}} x header mode through ONE start_rx followed by TWO completed receptions in continuous mode (the second, at its own start pointer, is judged) and through TWO get_rx_result calls for one reception (the second is judged). BUS FAULT DURING THE FETCH (both tiers): for 5 (length, offset) pairs x header mode x get_rx_payload / LoRa::rx / LorawanRadio::rx_single on the three chips, every SPI exchange of the fetch is interrupted once after 0, 1, 2, 3, half, all payload octets and all of its octets have reached the chip double (a FIFO read pointer has advanced by then) and the transaction fails: the outcome must still be an error or exactly the reported bytes. HAND-OVER to the MAC: authentic downlinks (reference codec) of 13..=255 bytes reported by the chip double at several offsets (incl. wrap-around) in RX1 of a real async_device::Device on top of LorawanRadio with radio buffers of 64, 255 and 256 bytes; a frame that fits must be delivered with exactly the plaintext that was sent, a longer one must give an error or no downlink. One evaluation = one fetch into a canary-filled buffer (or one such uplink+downlink transaction). Non-trivial (distinct by construction): effective length > buffer, or offset+length > 256 (wrap), or length 0, or an error status / CRC-error / no-RxDone interrupt set.{}",
        if full { "thorough: 12 status bytes (all 8 command-status values), 5 interrupt-flag sets." } else { "quick: 3 status bytes (good, execution failure, timeout), 2 interrupt-flag sets." },
        super::c18_hist::RULE
    );
    ctx.assumptions = vec![
        "chip doubles: SX126x GetRxBufferStatus (0x13) = status, PayloadLengthRx, RxStartBufferPointer; ReadBuffer (0x1E) wraps at 256; payload-length register 0x0702 holds the configured length; SX127x RegRxNbBytes (0x13), RegFifoRxCurrentAddr (0x10), FIFO pointer RegFifoAddrPtr wraps at 256".into(),
        "packet-status bytes are fixed at benign values here (C17 owns the RSSI/SNR conversion, including its SNR overflow)".into(),
        "in explicit-header mode the returned length must equal the reported length, in implicit-header mode the configured one".into(),
        "an Err(PayloadSizeMismatch(l, n)) with l <= n is counted as a violation (the error contradicts itself); any other error is accepted unconditionally, as the statement allows; buffer content after an error is not judged".into(),
        "the LoRaWAN adapter always configures explicit header / 255 bytes, so implicit mode is not reachable through it".into(),
        "stateful stage: 'the configured length' is the one in the packet parameters of the judged reception (the last prepare_for_rx / set_packet_params), whatever the same driver instance was asked before; a judged reception that is refused before the receiver starts is not judged; errors of prefix operations are tolerated".into(),
    ];
    ctx.parallel(|ti, n, st| {
        let mut k = 0u64;
        for chip in 0..CHIPS.len() {
            let mut rig = match catch(|| make_rig(chip)) {
                Ok(Ok(r)) => r,
                Ok(Err(e)) => {
                    st.fail(Failure::new("rx-fetch", json!({"chip":CHIPS[chip]}), format!("driver initialisation failed: {e}")).with_fp("rx-fetch/init"));
                    continue;
                }
                Err(p) => {
                    st.fail(panic_failure(json!({"chip":CHIPS[chip]}), &p));
                    continue;
                }
            };
            let sts = if chip == 0 { statuses(full) } else { vec![0] };
            let irqs = irq_sets(chip, full);
            let go = |c: Case, st: &mut Stats, rig: &mut Box<dyn Rig>| {
                st.eval();
                if c.nontrivial() {
                    st.nt_distinct();
                }
                match run_case(rig.as_mut(), &c) {
                    Ok(outcome) => {
                        st.class(&format!("{}:{}", PATHS[c.path], outcome));
                        if st.want_sample() && c.nontrivial() && (c.len as usize * 31 + c.off as usize * 7 + c.buf + c.path * 57) % 4099 == 11 {
                            let mut j = c.json();
                            j["outcome"] = json!(outcome);
                            st.sample(j);
                        }
                    }
                    Err(f) => {
                        // a panic may leave the shared driver state inconsistent: start from a fresh rig
                        if f.rule == "no-panic" || f.rule == "harness-bug" {
                            if let Ok(Ok(r)) = catch(|| make_rig(c.chip)) {
                                *rig = r;
                            }
                        }
                        st.fail(f)
                    }
                }
            };
            // work is split by (path-group, header mode, length) slices
            for implicit in [false, true] {
                for l in 0..=255u8 {
                    k += 1;
                    if k % n as u64 != ti as u64 {
                        continue;
                    }
                    // implicit header: the configured length counts, the reported one is a decoy;
                    // explicit header: the reported length counts, the configured maximum is the decoy
                    // (255 as the adapter sets it, and maxima below the packet actually reported)
                    let mut decoys: Vec<u8> = if implicit { vec![0, 255, l.wrapping_add(1)] } else { vec![255, l.saturating_sub(1), l / 2] };
                    decoys.sort();
                    decoys.dedup();
                    for &rep in decoys.iter() {
                        let (cfg_len, len) = if implicit { (l, rep) } else { (rep, l) };
                        for off in 0..=255u8 {
                            for &buf in BUF_SIZES.iter() {
                                // kind path x status bytes
                                for &status in sts.iter() {
                                    go(Case { chip, path: 0, implicit, cfg_len, len, off, buf, status, irq: 0, continuous: false , crc: off & 1 == 0, iq: off & 2 == 0, pre: PREAMBLES[(off >> 2) as usize & 3] }, st, &mut rig);
                                }
                                // LoRa paths x interrupt sets x mode
                                for &irq in irqs.iter() {
                                    for continuous in [false, true] {
                                        go(Case { chip, path: 1, implicit, cfg_len, len, off, buf, status: STATUS_OK, irq, continuous , crc: off & 1 == 0, iq: off & 2 == 0, pre: PREAMBLES[(off >> 2) as usize & 3] }, st, &mut rig);
                                    }
                                    go(Case { chip, path: 2, implicit, cfg_len, len, off, buf, status: STATUS_OK, irq, continuous: false , crc: off & 1 == 0, iq: off & 2 == 0, pre: PREAMBLES[(off >> 2) as usize & 3] }, st, &mut rig);
                                }
                                // LoRaWAN adapter (explicit only)
                                if !implicit && cfg_len == 255 {
                                    for &irq in irqs.iter() {
                                        go(Case { chip, path: 3, implicit, cfg_len, len, off, buf, status: STATUS_OK, irq, continuous: false , crc: true, iq: true, pre: 8 }, st, &mut rig);
                                        go(Case { chip, path: 4, implicit, cfg_len, len, off, buf, status: STATUS_OK, irq, continuous: true , crc: true, iq: true, pre: 8 }, st, &mut rig);
                                    }
                                    if chip == 0 && full {
                                        // adapter with error status bytes
                                        for &status in sts.iter().skip(1) {
                                            go(Case { chip, path: 3, implicit, cfg_len, len, off, buf, status, irq: irqs[0], continuous: false , crc: true, iq: true, pre: 8 }, st, &mut rig);
                                        }
                                    }
                                }
                            }
                        }
                    }
                }
            }
        }
    });
    // dimensions the grid above holds narrow: EVERY caller buffer size, a second reception of one start_rx, a second fetch
    extra_stage(ctx);
    bus_fault_stage(ctx);
    // the last hop: LorawanRadio -> the device's radio buffer -> MAC
    super::c18_mac::run(ctx);
    // receptions as the last step of a history on one driver instance
    super::c18_hist::stage(ctx);
}
