//! Stateful histories shared by C15 / C17 / C18.
//!
//! The three properties quantify over every request, and a request made after earlier activity on
//! the same driver instance is inside that domain. A history is a list of operations executed on ONE
//! driver instance on top of ONE chip double; the last operation is the judged request. Histories
//! exist at three levels:
//!   kind     `RadioKind` calls (set_channel, set_modulation_params, set_packet_params,
//!            set_tx_power_and_ramp_time, set_sleep, reset, init_lora, do_tx / do_rx / do_cad, get_rx_payload)
//!   lora     `LoRa` calls (prepare_for_tx + tx, prepare_for_rx [+ rx], listen, prepare_for_cad + cad,
//!            continuous_wave, rx_switch_channel, sleep warm/cold, init, enter_standby)
//!   lorawan  `LorawanRadio` (PhyRxTx) calls (tx, setup_rx [+ rx_single / rx_continuous], low_power)
//!
//! The chip doubles model what the silicon forgets (see drive/chip126x.rs `power_on`, chip127x.rs,
//! lr11xx.rs) and record the configuration in effect at the moment the chip is put on the air
//! (`Air`); the interpreter returns that observation for the last step, and each property judges it
//! against the request of the last step with its own oracle (c15_hist.rs, c17/hist.rs, c18_hist.rs).
//!
//! Generation: `prefixes()` enumerates every prefix of depth 0..=2 over an alphabet built relative to
//! the judged request (same values / different values / forgetting operations); `strategy()` draws
//! longer prefixes with proptest (shrinking removes operations and moves values towards "same as
//! the judged request").

use super::c15::{BWS, BW_ROUNDED_HZ, CRS, CR_DENOM, SFS, SF_NUM};
use super::c18::{pat, Fetch, CANARY};
use crate::drive::chip126x::{IRQ_HEADER_VALID, IRQ_PREAMBLE_DETECTED, IRQ_RX_DONE, IRQ_TIMEOUT, STATUS_OK};
use crate::drive::chip127x::{Kind, IRQ_RX_DONE as IRQ127_RX_DONE, IRQ_RX_TIMEOUT, IRQ_VALID_HEADER, REG_FIFO_RX_CURRENT_ADDR, REG_RX_NB_BYTES};
use crate::drive::lr11xx;
use crate::drive::rig::{self, C126, C127, CLr};
use crate::drive::{block_on, Air, Delay, Held, Iv};
use lora_modulation::BaseBandModulationParams;
use lora_phy::lorawan_radio::LorawanRadio;
use lora_phy::mod_params::{DutyCycleParams, ModulationParams, PacketParams, RadioError, RadioMode};
use lora_phy::mod_traits::RadioKind;
use lora_phy::sx126x::{Stm32wl, Sx1261, Sx1262};
use lora_phy::{LoRa, RxMode};
use lorawan_device::async_device::radio::{PhyRxTx, RfConfig, RxConfig, RxMode as LwRxMode, RxStatus, TxConfig};
use proptest::prelude::*;
use serde_json::{json, Value};
use std::rc::Rc;
use verif_core::oracle::airtime::{ldro_rule, NOMINAL_BW_MILLIHZ};

pub const CHIPS: [&str; 7] = ["sx1261", "sx1262", "stm32wl-hp", "stm32wl-lp", "sx1276", "sx1272", "lr1110"];
pub const LEVELS: [&str; 3] = ["kind", "lora", "lorawan"];
pub const KIND: usize = 0;
pub const LORA: usize = 1;
pub const LORAWAN: usize = 2;

pub fn family(chip: usize) -> &'static str {
    match CHIPS[chip] {
        "sx1276" | "sx1272" => "sx127x",
        "lr1110" => "lr1110",
        _ => "sx126x",
    }
}

#[derive(Debug, Clone, Copy, PartialEq)]
pub struct Mod {
    pub sf: usize,
    pub bw: usize,
    pub cr: usize,
    pub freq: u32,
}

#[derive(Debug, Clone, Copy, PartialEq)]
pub struct Pkt {
    pub implicit: bool,
    pub len: u8,
    pub crc: bool,
    pub iq: bool,
    /// preamble length in symbols
    pub pre: u16,
}

impl Pkt {
    /// the LoRaWAN downlink shape: CRC on, IQ inverted, 8 preamble symbols
    pub const fn new(implicit: bool, len: u8) -> Pkt {
        Pkt { implicit, len, crc: true, iq: true, pre: 8 }
    }
    pub const fn with(self, crc: bool, iq: bool, pre: u16) -> Pkt {
        Pkt { crc, iq, pre, ..self }
    }
}

#[derive(Debug, Clone, Copy, PartialEq)]
pub enum Mode {
    Single(u16),
    Continuous,
    DutyCycle,
}

/// what the chip reports when the receiver is started
#[derive(Debug, Clone, Copy, PartialEq)]
pub enum RxEnd {
    /// the receive operation is prepared but never started
    None,
    /// RxDone with this reported length and start offset / FIFO address
    Done { len: u8, off: u8 },
    Timeout,
}

#[derive(Debug, Clone, Copy, PartialEq)]
pub enum Op {
    // ---- LoRa level
    Tx { m: Mod, power: i32, len: u8 },
    Rx { m: Mod, p: Pkt, mode: Mode, end: RxEnd, buf: u16 },
    /// prepare_for_rx(Continuous) + start_rx once, then two receptions completed by complete_rx (the chip
    /// raises RxDone twice and reports `first`, then `second`: the buffer pointer moves on); with `refetch`
    /// the second reception is fetched once more through get_rx_result. The second reception is the observed one.
    Rx2 { m: Mod, p: Pkt, first: (u8, u8), second: (u8, u8), buf: u16, refetch: bool },
    Listen { freq: u32, bw: usize },
    Cad { m: Mod },
    Cw { m: Mod, power: i32 },
    Switch { freq: u32 },
    Sleep { warm: bool },
    Init,
    Standby,
    /// prepare_for_rx + a reception that completes with the raw packet-status bytes `raw` (SX126x: RssiPkt, SnrPkt,
    /// SignalRssiPkt; SX127x: RegPktRssiValue, RegPktSnrValue, -) in the chip: via 0 = rx(), 1 = start_rx + get_rx_result.
    /// The reported PacketStatus is the observation.
    RxStat { m: Mod, p: Pkt, mode: Mode, raw: [u8; 3], via: u8 },
    /// a reception completes NOW on whatever receive operation the history left running (nothing is prepared or
    /// started): the chip raises RxDone with `raw` as packet status; via 0 = complete_rx, 1 = get_rx_result.
    /// `m` only says which reception the caller believes is running (packet parameters are created against it).
    Complete { m: Mod, p: Pkt, raw: [u8; 3], via: u8 },
    /// get_rssi() on whatever the history left running, with `raw` as the chip's instantaneous RSSI value
    Rssi { m: Mod, raw: u8 },
    // ---- RadioKind level
    KChannel { freq: u32 },
    KMod { m: Mod },
    KPkt { p: Pkt },
    KPower { power: i32, m: Option<Mod>, tx_prep: bool },
    KSleep { warm: bool },
    KReset,
    KInitLora,
    KStandby,
    KDoTx,
    KDoRx { mode: Mode },
    KDoCad { m: Mod },
    /// set_packet_params(p) followed by get_rx_payload(p, buffer) with the chip reporting (len, off)
    KFetch { p: Pkt, len: u8, off: u8, buf: u16 },
    /// get_rx_packet_status() with `raw` in the chip (`m` is context only: the band the caller works in)
    KStatus { m: Mod, raw: [u8; 3] },
    /// get_rssi() with `raw` in the chip
    KRssi { m: Mod, raw: u8 },
    // ---- LoRaWAN adapter level
    LwTx { m: Mod, power: i8, len: u8 },
    LwRx { m: Mod, ms: Option<u32>, end: RxEnd, buf: u16 },
    /// setup_rx(Continuous) once, then rx_continuous twice (reports `first`, then `second`, the observed one)
    LwRx2 { m: Mod, first: (u8, u8), second: (u8, u8), buf: u16 },
    /// setup_rx + rx_single (ms) / rx_continuous (None) completing with `raw` as packet status: the RxQuality is the observation
    LwRxStat { m: Mod, ms: Option<u32>, raw: [u8; 3] },
    LwLowPower,
}

#[derive(Debug, Clone, PartialEq)]
pub struct Hist {
    pub chip: usize,
    /// board options: bit 0 rx_boost, bit 1 tx_boost (SX127x) / DC-DC (SX126x, LR1110), bit 2 TCXO; LR1110 also bit 3 high-power PA, bit 4 DIOs as RF switch
    pub board: u8,
    pub level: usize,
    /// the last operation is the judged request
    pub ops: Vec<Op>,
}

// ------------------------------------------------------------------ JSON

fn mod_json(m: &Mod) -> Value {
    json!({"sf":SF_NUM[m.sf],"bw_hz":BW_ROUNDED_HZ[m.bw],"cr_denom":CR_DENOM[m.cr],"freq_hz":m.freq})
}
fn mod_from(v: &Value) -> Option<Mod> {
    Some(Mod {
        sf: SF_NUM.iter().position(|s| Some(*s as u64) == v["sf"].as_u64())?,
        bw: BW_ROUNDED_HZ.iter().position(|s| Some(*s as u64) == v["bw_hz"].as_u64())?,
        cr: CR_DENOM.iter().position(|s| Some(*s as u64) == v["cr_denom"].as_u64())?,
        freq: v["freq_hz"].as_u64()? as u32,
    })
}
fn pkt_json(p: &Pkt) -> Value {
    json!({"implicit_header":p.implicit,"payload_length":p.len,"crc_on":p.crc,"iq_inverted":p.iq,"preamble":p.pre})
}
fn pkt_from(v: &Value) -> Option<Pkt> {
    Some(Pkt {
        implicit: v["implicit_header"].as_bool()?,
        len: v["payload_length"].as_u64()? as u8,
        crc: v["crc_on"].as_bool().unwrap_or(true),
        iq: v["iq_inverted"].as_bool().unwrap_or(true),
        pre: v["preamble"].as_u64().unwrap_or(8) as u16,
    })
}
fn mode_json(m: &Mode) -> Value {
    match m {
        Mode::Single(n) => json!({"single_symbols":n}),
        Mode::Continuous => json!("continuous"),
        Mode::DutyCycle => json!("duty-cycle"),
    }
}
fn mode_from(v: &Value) -> Option<Mode> {
    if let Some(n) = v["single_symbols"].as_u64() {
        return Some(Mode::Single(n as u16));
    }
    match v.as_str()? {
        "continuous" => Some(Mode::Continuous),
        "duty-cycle" => Some(Mode::DutyCycle),
        _ => None,
    }
}
fn end_json(e: &RxEnd) -> Value {
    match e {
        RxEnd::None => json!("not-started"),
        RxEnd::Timeout => json!("timeout"),
        RxEnd::Done { len, off } => json!({"reported_len":len,"reported_offset":off}),
    }
}
fn end_from(v: &Value) -> Option<RxEnd> {
    if let Some(l) = v["reported_len"].as_u64() {
        return Some(RxEnd::Done { len: l as u8, off: v["reported_offset"].as_u64()? as u8 });
    }
    match v.as_str()? {
        "not-started" => Some(RxEnd::None),
        "timeout" => Some(RxEnd::Timeout),
        _ => None,
    }
}

pub fn op_name(o: &Op) -> &'static str {
    match o {
        Op::Tx { .. } => "prepare_for_tx+tx",
        Op::Rx { .. } => "prepare_for_rx+rx",
        Op::Rx2 { .. } => "prepare_for_rx+start_rx+2*complete_rx",
        Op::LwRx2 { .. } => "lorawan-setup_rx+2*rx_continuous",
        Op::RxStat { .. } => "prepare_for_rx+rx:packet-status",
        Op::Complete { .. } => "reception-completes-now:packet-status",
        Op::Rssi { .. } => "get_rssi",
        Op::KStatus { .. } => "get_rx_packet_status",
        Op::KRssi { .. } => "kind-get_rssi",
        Op::LwRxStat { .. } => "lorawan-setup_rx+rx:quality",
        Op::Listen { .. } => "listen",
        Op::Cad { .. } => "prepare_for_cad+cad",
        Op::Cw { .. } => "continuous_wave",
        Op::Switch { .. } => "rx_switch_channel",
        Op::Sleep { .. } => "sleep",
        Op::Init => "init",
        Op::Standby => "enter_standby",
        Op::KChannel { .. } => "set_channel",
        Op::KMod { .. } => "set_modulation_params",
        Op::KPkt { .. } => "set_packet_params",
        Op::KPower { .. } => "set_tx_power_and_ramp_time",
        Op::KSleep { .. } => "set_sleep+wake",
        Op::KReset => "reset",
        Op::KInitLora => "init_lora",
        Op::KStandby => "set_standby",
        Op::KDoTx => "do_tx",
        Op::KDoRx { .. } => "do_rx",
        Op::KDoCad { .. } => "do_cad",
        Op::KFetch { .. } => "set_packet_params+get_rx_payload",
        Op::LwTx { .. } => "lorawan-tx",
        Op::LwRx { .. } => "lorawan-setup_rx+rx",
        Op::LwLowPower => "lorawan-low_power",
    }
}

pub fn op_json(o: &Op) -> Value {
    let mut v = match o {
        Op::Tx { m, power, len } => json!({"mod":mod_json(m),"power_dbm":power,"payload_len":len}),
        Op::Rx { m, p, mode, end, buf } => json!({"mod":mod_json(m),"pkt":pkt_json(p),"mode":mode_json(mode),"end":end_json(end),"buffer_size":buf}),
        Op::Rx2 { m, p, first, second, buf, refetch } => json!({"mod":mod_json(m),"pkt":pkt_json(p),"first_report":[first.0, first.1],"second_report":[second.0, second.1],"buffer_size":buf,"fetch_again":refetch}),
        Op::LwRx2 { m, first, second, buf } => json!({"mod":mod_json(m),"first_report":[first.0, first.1],"second_report":[second.0, second.1],"buffer_size":buf}),
        Op::RxStat { m, p, mode, raw, via } => json!({"mod":mod_json(m),"pkt":pkt_json(p),"mode":mode_json(mode),"raw_status":raw,"via":via}),
        Op::Complete { m, p, raw, via } => json!({"mod":mod_json(m),"pkt":pkt_json(p),"raw_status":raw,"via":via}),
        Op::Rssi { m, raw } | Op::KRssi { m, raw } => json!({"mod":mod_json(m),"raw_rssi":raw}),
        Op::KStatus { m, raw } => json!({"mod":mod_json(m),"raw_status":raw}),
        Op::LwRxStat { m, ms, raw } => json!({"mod":mod_json(m),"single_ms":ms,"raw_status":raw}),
        Op::Listen { freq, bw } => json!({"freq_hz":freq,"bw_hz":BW_ROUNDED_HZ[*bw]}),
        Op::Cad { m } | Op::KMod { m } | Op::KDoCad { m } => json!({"mod":mod_json(m)}),
        Op::Cw { m, power } => json!({"mod":mod_json(m),"power_dbm":power}),
        Op::Switch { freq } | Op::KChannel { freq } => json!({"freq_hz":freq}),
        Op::Sleep { warm } | Op::KSleep { warm } => json!({"warm_start":warm}),
        Op::Init | Op::Standby | Op::KReset | Op::KInitLora | Op::KStandby | Op::KDoTx | Op::LwLowPower => json!({}),
        Op::KPkt { p } => json!({"pkt":pkt_json(p)}),
        Op::KPower { power, m, tx_prep } => json!({"power_dbm":power,"mod":m.as_ref().map(mod_json),"tx_prep":tx_prep}),
        Op::KDoRx { mode } => json!({"mode":mode_json(mode)}),
        Op::KFetch { p, len, off, buf } => json!({"pkt":pkt_json(p),"reported_len":len,"reported_offset":off,"buffer_size":buf}),
        Op::LwTx { m, power, len } => json!({"mod":mod_json(m),"power_dbm":power,"payload_len":len}),
        Op::LwRx { m, ms, end, buf } => json!({"mod":mod_json(m),"single_ms":ms,"end":end_json(end),"buffer_size":buf}),
    };
    v["op"] = json!(op_name(o));
    v
}

pub fn op_from(v: &Value) -> Option<Op> {
    let m = || mod_from(&v["mod"]);
    let p = || pkt_from(&v["pkt"]);
    let buf = || v["buffer_size"].as_u64().map(|b| b.min(256) as u16);
    let pair = |x: &Value| -> Option<(u8, u8)> { Some((x[0].as_u64()? as u8, x[1].as_u64()? as u8)) };
    let raw3 = |x: &Value| -> Option<[u8; 3]> { Some([x[0].as_u64()? as u8, x[1].as_u64()? as u8, x[2].as_u64()? as u8]) };
    Some(match v["op"].as_str()? {
        "prepare_for_tx+tx" => Op::Tx { m: m()?, power: v["power_dbm"].as_i64()? as i32, len: v["payload_len"].as_u64()? as u8 },
        "prepare_for_rx+rx" => Op::Rx { m: m()?, p: p()?, mode: mode_from(&v["mode"])?, end: end_from(&v["end"])?, buf: buf()? },
        "prepare_for_rx+start_rx+2*complete_rx" => Op::Rx2 { m: m()?, p: p()?, first: pair(&v["first_report"])?, second: pair(&v["second_report"])?, buf: buf()?, refetch: v["fetch_again"].as_bool().unwrap_or(false) },
        "lorawan-setup_rx+2*rx_continuous" => Op::LwRx2 { m: m()?, first: pair(&v["first_report"])?, second: pair(&v["second_report"])?, buf: buf()? },
        "prepare_for_rx+rx:packet-status" => Op::RxStat { m: m()?, p: p()?, mode: mode_from(&v["mode"])?, raw: raw3(&v["raw_status"])?, via: v["via"].as_u64().unwrap_or(0) as u8 },
        "reception-completes-now:packet-status" => Op::Complete { m: m()?, p: p()?, raw: raw3(&v["raw_status"])?, via: v["via"].as_u64().unwrap_or(0) as u8 },
        "get_rssi" => Op::Rssi { m: m()?, raw: v["raw_rssi"].as_u64()? as u8 },
        "get_rx_packet_status" => Op::KStatus { m: m()?, raw: raw3(&v["raw_status"])? },
        "kind-get_rssi" => Op::KRssi { m: m()?, raw: v["raw_rssi"].as_u64()? as u8 },
        "lorawan-setup_rx+rx:quality" => Op::LwRxStat { m: m()?, ms: v["single_ms"].as_u64().map(|x| x as u32), raw: raw3(&v["raw_status"])? },
        "listen" => Op::Listen { freq: v["freq_hz"].as_u64()? as u32, bw: BW_ROUNDED_HZ.iter().position(|s| Some(*s as u64) == v["bw_hz"].as_u64())? },
        "prepare_for_cad+cad" => Op::Cad { m: m()? },
        "continuous_wave" => Op::Cw { m: m()?, power: v["power_dbm"].as_i64()? as i32 },
        "rx_switch_channel" => Op::Switch { freq: v["freq_hz"].as_u64()? as u32 },
        "sleep" => Op::Sleep { warm: v["warm_start"].as_bool()? },
        "init" => Op::Init,
        "enter_standby" => Op::Standby,
        "set_channel" => Op::KChannel { freq: v["freq_hz"].as_u64()? as u32 },
        "set_modulation_params" => Op::KMod { m: m()? },
        "set_packet_params" => Op::KPkt { p: p()? },
        "set_tx_power_and_ramp_time" => Op::KPower { power: v["power_dbm"].as_i64()? as i32, m: mod_from(&v["mod"]), tx_prep: v["tx_prep"].as_bool().unwrap_or(true) },
        "set_sleep+wake" => Op::KSleep { warm: v["warm_start"].as_bool()? },
        "reset" => Op::KReset,
        "init_lora" => Op::KInitLora,
        "set_standby" => Op::KStandby,
        "do_tx" => Op::KDoTx,
        "do_rx" => Op::KDoRx { mode: mode_from(&v["mode"])? },
        "do_cad" => Op::KDoCad { m: m()? },
        "set_packet_params+get_rx_payload" => Op::KFetch { p: p()?, len: v["reported_len"].as_u64()? as u8, off: v["reported_offset"].as_u64()? as u8, buf: buf()? },
        "lorawan-tx" => Op::LwTx { m: m()?, power: v["power_dbm"].as_i64()? as i8, len: v["payload_len"].as_u64()? as u8 },
        "lorawan-setup_rx+rx" => Op::LwRx { m: m()?, ms: v["single_ms"].as_u64().map(|x| x as u32), end: end_from(&v["end"])?, buf: buf()? },
        "lorawan-low_power" => Op::LwLowPower,
        _ => return None,
    })
}

impl Hist {
    pub fn json(&self, check: &str) -> Value {
        json!({"kind":"history","check":check,"chip":CHIPS[self.chip],"board_options":self.board,"level":LEVELS[self.level],
               "ops":self.ops.iter().map(op_json).collect::<Vec<_>>()})
    }
    pub fn from_json(v: &Value) -> Option<Hist> {
        let ops: Option<Vec<Op>> = v["ops"].as_array()?.iter().map(op_from).collect();
        let ops = ops?;
        if ops.is_empty() {
            return None;
        }
        Some(Hist {
            chip: CHIPS.iter().position(|s| Some(*s) == v["chip"].as_str())?,
            board: v["board_options"].as_u64().unwrap_or(0) as u8,
            level: LEVELS.iter().position(|s| Some(*s) == v["level"].as_str())?,
            ops,
        })
    }
    pub fn judged(&self) -> &Op {
        self.ops.last().expect("a history has at least the judged request")
    }
}

// ------------------------------------------------------------------ chip control

/// What the interpreter needs from a chip double, whatever its family.
pub trait ChipCtl {
    fn power_on(&self);
    fn clear_air(&self);
    /// (most recent on-air snapshot, number of on-air commands since clear_air)
    fn air(&self) -> (Option<Air>, u64);
    fn held(&self) -> Held;
    /// scripts what the chip reports when the receiver is started next, and puts the pattern into its buffer
    fn arm_rx(&self, end: RxEnd);
    /// the receiver is already running (continuous mode): the chip reports another reception now
    fn raise_rx(&self, end: RxEnd);
    /// raw packet-status bytes the chip answers with (SX126x GetPacketStatus RssiPkt, SnrPkt, SignalRssiPkt; SX127x
    /// RegPktRssiValue, RegPktSnrValue); call after arm_rx / raise_rx, which script benign values
    fn set_status(&self, raw: [u8; 3]);
    /// raw instantaneous RSSI (SX126x GetRssiInst, SX127x RegRssiValue)
    fn set_rssi_inst(&self, raw: u8);
    fn power_ons(&self) -> u32;
    fn anomalies(&self) -> Vec<String>;
}

struct Ctl126(C126);
impl ChipCtl for Ctl126 {
    fn power_on(&self) {
        self.0.borrow_mut().power_on()
    }
    fn clear_air(&self) {
        let mut c = self.0.borrow_mut();
        c.air = None;
        c.air_count = 0;
    }
    fn air(&self) -> (Option<Air>, u64) {
        let c = self.0.borrow();
        (c.air.clone(), c.air_count)
    }
    fn held(&self) -> Held {
        self.0.borrow().held()
    }
    fn arm_rx(&self, end: RxEnd) {
        let mut c = self.0.borrow_mut();
        for i in 0..256 {
            c.buffer[i] = pat(i);
        }
        c.pkt_status = [90, 0x14, 88];
        c.status = STATUS_OK;
        match end {
            RxEnd::Done { len, off } => {
                c.rx_len = len;
                c.rx_start = off;
                c.irq_on_rx = IRQ_RX_DONE | IRQ_HEADER_VALID | IRQ_PREAMBLE_DETECTED;
            }
            RxEnd::Timeout => c.irq_on_rx = IRQ_TIMEOUT,
            RxEnd::None => c.irq_on_rx = 0,
        }
    }
    fn raise_rx(&self, end: RxEnd) {
        self.arm_rx(end);
        let mut c = self.0.borrow_mut();
        let f = c.irq_on_rx;
        c.irq |= f;
    }
    fn set_status(&self, raw: [u8; 3]) {
        self.0.borrow_mut().pkt_status = raw;
    }
    fn set_rssi_inst(&self, raw: u8) {
        self.0.borrow_mut().rssi_inst = raw;
    }
    fn power_ons(&self) -> u32 {
        self.0.borrow().power_ons
    }
    fn anomalies(&self) -> Vec<String> {
        self.0.borrow().anomalies.clone()
    }
}

struct Ctl127(C127);
impl ChipCtl for Ctl127 {
    fn power_on(&self) {
        self.0.borrow_mut().power_on()
    }
    fn clear_air(&self) {
        let mut c = self.0.borrow_mut();
        c.air = None;
        c.air_count = 0;
    }
    fn air(&self) -> (Option<Air>, u64) {
        let c = self.0.borrow();
        (c.air.clone(), c.air_count)
    }
    fn held(&self) -> Held {
        self.0.borrow().held()
    }
    fn arm_rx(&self, end: RxEnd) {
        let mut c = self.0.borrow_mut();
        for i in 0..256 {
            c.fifo[i] = pat(i);
        }
        c.regs[0x19] = 0x14;
        c.regs[0x1A] = 70;
        match end {
            RxEnd::Done { len, off } => {
                c.regs[REG_RX_NB_BYTES as usize] = len;
                c.regs[REG_FIFO_RX_CURRENT_ADDR as usize] = off;
                c.irq_on_rx = IRQ127_RX_DONE | IRQ_VALID_HEADER;
            }
            RxEnd::Timeout => c.irq_on_rx = IRQ_RX_TIMEOUT,
            RxEnd::None => c.irq_on_rx = 0,
        }
    }
    fn raise_rx(&self, end: RxEnd) {
        self.arm_rx(end);
        let mut c = self.0.borrow_mut();
        let f = c.irq_on_rx;
        c.regs[crate::drive::chip127x::REG_IRQ_FLAGS as usize] |= f;
    }
    fn set_status(&self, raw: [u8; 3]) {
        let mut c = self.0.borrow_mut();
        c.regs[crate::drive::chip127x::REG_PKT_RSSI_VALUE as usize] = raw[0];
        c.regs[crate::drive::chip127x::REG_PKT_SNR_VALUE as usize] = raw[1];
    }
    fn set_rssi_inst(&self, raw: u8) {
        self.0.borrow_mut().regs[crate::drive::chip127x::REG_RSSI_VALUE as usize] = raw;
    }
    fn power_ons(&self) -> u32 {
        self.0.borrow().power_ons
    }
    fn anomalies(&self) -> Vec<String> {
        vec![]
    }
}

struct CtlLr(CLr);
impl ChipCtl for CtlLr {
    fn power_on(&self) {
        self.0.borrow_mut().power_on()
    }
    fn clear_air(&self) {
        let mut c = self.0.borrow_mut();
        c.air = None;
        c.air_count = 0;
    }
    fn air(&self) -> (Option<Air>, u64) {
        let c = self.0.borrow();
        (c.air.clone(), c.air_count)
    }
    fn held(&self) -> Held {
        self.0.borrow().held()
    }
    fn arm_rx(&self, end: RxEnd) {
        let mut c = self.0.borrow_mut();
        c.irq_on_rx = match end {
            RxEnd::Done { .. } => lr11xx::IRQ_RX_DONE,
            RxEnd::Timeout => lr11xx::IRQ_TIMEOUT,
            RxEnd::None => 0,
        };
    }
    fn raise_rx(&self, end: RxEnd) {
        self.arm_rx(end);
        let mut c = self.0.borrow_mut();
        let f = c.irq_on_rx;
        c.irq |= f;
    }
    fn set_status(&self, _raw: [u8; 3]) {}
    fn set_rssi_inst(&self, _raw: u8) {}
    fn power_ons(&self) -> u32 {
        self.0.borrow().power_ons
    }
    fn anomalies(&self) -> Vec<String> {
        vec![]
    }
}

// ------------------------------------------------------------------ interpreter

/// Observation of one executed operation.
#[derive(Debug, Clone, Default)]
pub struct StepObs {
    /// Debug text of the error the operation returned, if any
    pub err: Option<String>,
    /// the most recent on-air snapshot taken while this operation ran, and how many there were
    pub air: Option<Air>,
    pub airs: u64,
    /// configuration held by the chip after the operation
    pub held: Held,
    /// `ModulationParams.low_data_rate_optimize` of the parameters this operation created (where the level exposes them)
    pub decision: Option<u8>,
    /// result of the packet fetch (receive operations that were started) and the caller's buffer afterwards
    pub fetch: Option<FetchObs>,
    /// the same reception fetched once more (get_rx_result), where the operation asks for it
    pub fetch2: Option<FetchObs>,
    /// (rssi dBm, snr dB) of the PacketStatus / RxQuality the operation reported
    pub status: Option<(i64, i64)>,
    /// instantaneous RSSI (dBm) the operation reported
    pub rssi_inst: Option<i64>,
}

#[derive(Debug, Clone)]
pub struct FetchObs {
    pub result: Result<usize, (String, Option<(usize, usize)>)>,
    /// adapter reported "timeout, no packet"
    pub no_packet: bool,
    pub size: usize,
    pub store: Vec<u8>,
}

#[derive(Debug, Clone, Default)]
pub struct Outcome {
    /// error text per prefix operation (None = Ok)
    pub prefix_errs: Vec<Option<String>>,
    pub last: StepObs,
    pub power_ons: u32,
    pub anomalies: Vec<String>,
    /// bring-up (LoRa::new / reset + init_lora) failed: nothing was executed
    pub setup_err: Option<String>,
}

fn rx_mode(m: Mode) -> RxMode {
    match m {
        Mode::Single(n) => RxMode::Single(n),
        Mode::Continuous => RxMode::Continuous,
        Mode::DutyCycle => RxMode::DutyCycle(DutyCycleParams { rx_time: 1000, sleep_time: 2000 }),
    }
}

fn to_fetch(r: Result<usize, RadioError>, size: usize, store: &[u8]) -> FetchObs {
    let result = match r {
        Ok(l) => Ok(l),
        Err(e) => {
            let mm = if let RadioError::PayloadSizeMismatch(a, b) = e { Some((a, b)) } else { None };
            Err((format!("{e:?}"), mm))
        }
    };
    FetchObs { result, no_packet: false, size, store: store.to_vec() }
}

const PAYLOAD: [u8; 255] = {
    let mut p = [0u8; 255];
    let mut i = 0;
    while i < 255 {
        p[i] = (i as u8).wrapping_mul(29).wrapping_add(0x40);
        i += 1;
    }
    p
};

struct Scratch {
    decision: Option<u8>,
    fetch: Option<FetchObs>,
    fetch2: Option<FetchObs>,
    status: Option<(i64, i64)>,
    rssi_inst: Option<i64>,
}

/// Debug text of the error an operation returned
struct OpErr(String);
impl From<RadioError> for OpErr {
    fn from(e: RadioError) -> Self {
        OpErr(format!("{e:?}"))
    }
}
fn q(r: Result<(), RadioError>) -> Result<(), OpErr> {
    r.map_err(OpErr::from)
}

fn mk_mod<RK: RadioKind>(radio: &RK, m: &Mod) -> Result<ModulationParams, RadioError> {
    radio.create_modulation_params(SFS[m.sf], BWS[m.bw], CRS[m.cr], m.freq)
}
/// packet parameters for a kind-level set_packet_params / fetch: created against SF7/125 kHz so that the
/// header mode is the operation's own choice (SF6 would force implicit header on SX127x)
fn mk_pkt<RK: RadioKind>(radio: &RK, p: &Pkt) -> Result<PacketParams, RadioError> {
    let mp = radio.create_modulation_params(SFS[2], BWS[7], CRS[0], 868_100_000)?;
    radio.create_packet_params(p.pre, p.implicit, p.len, p.crc, p.iq, &mp)
}

fn exec_kind<RK: RadioKind>(radio: &mut RK, ctl: &dyn ChipCtl, op: &Op, sc: &mut Scratch) -> Result<(), OpErr> {
    q(match op {
        Op::KChannel { freq } => block_on(radio.set_channel(*freq)),
        Op::KMod { m } => {
            let mp = mk_mod(radio, m)?;
            sc.decision = Some(mp.low_data_rate_optimize);
            block_on(radio.set_modulation_params(&mp))
        }
        Op::KPkt { p } => {
            let pp = mk_pkt(radio, p)?;
            block_on(radio.set_packet_params(&pp))
        }
        Op::KPower { power, m, tx_prep } => match m {
            None => block_on(radio.set_tx_power_and_ramp_time(*power, None, *tx_prep)),
            Some(m) => {
                let mp = mk_mod(radio, m)?;
                block_on(radio.set_tx_power_and_ramp_time(*power, Some(&mp), *tx_prep))
            }
        },
        Op::KSleep { warm } => {
            block_on(radio.set_sleep(*warm, &mut Delay))?;
            block_on(radio.ensure_ready(RadioMode::Sleep))
        }
        Op::KReset => {
            block_on(radio.reset(&mut Delay))?;
            block_on(radio.ensure_ready(RadioMode::Sleep))?;
            block_on(radio.set_standby())
        }
        Op::KInitLora => block_on(radio.init_lora(0x3444)),
        Op::KStandby => block_on(radio.set_standby()),
        Op::KDoTx => block_on(radio.do_tx()),
        Op::KDoRx { mode } => {
            ctl.arm_rx(RxEnd::Timeout);
            block_on(radio.do_rx(rx_mode(*mode)))
        }
        Op::KDoCad { m } => {
            let mp = mk_mod(radio, m)?;
            block_on(radio.do_cad(&mp))
        }
        Op::KFetch { p, len, off, buf } => {
            let pp = mk_pkt(radio, p)?;
            block_on(radio.set_packet_params(&pp))?;
            ctl.arm_rx(RxEnd::Done { len: *len, off: *off });
            let mut store = [CANARY; 256];
            let size = (*buf as usize).min(256);
            let r = block_on(radio.get_rx_payload(&pp, &mut store[..size]));
            let f = to_fetch(r.map(|l| l as usize), size, &store);
            let out = match &f.result {
                Ok(_) => Ok(()),
                Err((t, _)) => Err(OpErr(t.clone())),
            };
            sc.fetch = Some(f);
            return out;
        }
        Op::KStatus { raw, .. } => {
            ctl.set_status(*raw);
            let ps = block_on(radio.get_rx_packet_status())?;
            sc.status = Some((ps.rssi as i64, ps.snr as i64));
            Ok(())
        }
        Op::KRssi { raw, .. } => {
            ctl.set_rssi_inst(*raw);
            sc.rssi_inst = Some(block_on(radio.get_rssi())? as i64);
            Ok(())
        }
        _ => panic!("HARNESS-BUG: {} is not a RadioKind-level operation", op_name(op)),
    })
}

fn exec_lora<RK: RadioKind>(lora: &mut LoRa<RK, Delay>, ctl: &dyn ChipCtl, op: &Op, sc: &mut Scratch) -> Result<(), OpErr> {
    let mk = |lora: &mut LoRa<RK, Delay>, m: &Mod| lora.create_modulation_params(SFS[m.sf], BWS[m.bw], CRS[m.cr], m.freq);
    q(match op {
        Op::Tx { m, power, len } => {
            let mp = mk(lora, m)?;
            sc.decision = Some(mp.low_data_rate_optimize);
            // SF6 needs implicit header on SX127x; harmless elsewhere
            let mut pp = lora.create_tx_packet_params(8, m.sf == 1, true, false, &mp)?;
            block_on(lora.prepare_for_tx(&mp, &mut pp, *power, &PAYLOAD[..*len as usize]))?;
            block_on(lora.tx())
        }
        Op::Rx { m, p, mode, end, buf } => {
            let mp = mk(lora, m)?;
            sc.decision = Some(mp.low_data_rate_optimize);
            let pp = lora.create_rx_packet_params(p.pre, p.implicit, p.len, p.crc, p.iq, &mp)?;
            block_on(lora.prepare_for_rx(rx_mode(*mode), &mp, &pp))?;
            if *end == RxEnd::None {
                return Ok(());
            }
            ctl.arm_rx(*end);
            let mut store = [CANARY; 256];
            let size = (*buf as usize).min(256);
            let r = block_on(lora.rx(&pp, &mut store[..size]));
            let f = to_fetch(r.map(|(l, _)| l as usize), size, &store);
            let out = match &f.result {
                Ok(_) => Ok(()),
                Err((t, _)) => Err(OpErr(t.clone())),
            };
            sc.fetch = Some(f);
            return out;
        }
        Op::Rx2 { m, p, first, second, buf, refetch } => {
            let mp = mk(lora, m)?;
            sc.decision = Some(mp.low_data_rate_optimize);
            let pp = lora.create_rx_packet_params(p.pre, p.implicit, p.len, p.crc, p.iq, &mp)?;
            block_on(lora.prepare_for_rx(RxMode::Continuous, &mp, &pp))?;
            ctl.arm_rx(RxEnd::Done { len: first.0, off: first.1 });
            block_on(lora.start_rx())?;
            let mut scratch = [CANARY; 256];
            block_on(lora.complete_rx(&pp, &mut scratch))?;
            ctl.raise_rx(RxEnd::Done { len: second.0, off: second.1 });
            let mut store = [CANARY; 256];
            let size = (*buf as usize).min(256);
            let r = block_on(lora.complete_rx(&pp, &mut store[..size]));
            let f = to_fetch(r.map(|(l, _)| l as usize), size, &store);
            let out = match &f.result {
                Ok(_) => Ok(()),
                Err((t, _)) => Err(OpErr(t.clone())),
            };
            sc.fetch = Some(f);
            if *refetch && out.is_ok() {
                let mut store = [CANARY; 256];
                let r = block_on(lora.get_rx_result(&pp, &mut store[..size]));
                sc.fetch2 = Some(to_fetch(r.map(|(l, _)| l as usize), size, &store));
            }
            return out;
        }
        Op::Listen { freq, bw } => block_on(lora.listen(*freq, BWS[*bw])),
        Op::Cad { m } => {
            let mp = mk(lora, m)?;
            sc.decision = Some(mp.low_data_rate_optimize);
            block_on(lora.prepare_for_cad(&mp))?;
            block_on(lora.cad(&mp)).map(|_| ())
        }
        Op::Cw { m, power } => {
            let mp = mk(lora, m)?;
            sc.decision = Some(mp.low_data_rate_optimize);
            block_on(lora.continuous_wave(&mp, *power))
        }
        Op::Switch { freq } => block_on(lora.rx_switch_channel(*freq)),
        Op::Sleep { warm } => block_on(lora.sleep(*warm)),
        Op::Init => block_on(lora.init()),
        Op::Standby => block_on(lora.enter_standby()),
        Op::RxStat { m, p, mode, raw, via } => {
            let mp = mk(lora, m)?;
            let pp = lora.create_rx_packet_params(p.pre, p.implicit, p.len, p.crc, p.iq, &mp)?;
            block_on(lora.prepare_for_rx(rx_mode(*mode), &mp, &pp))?;
            ctl.arm_rx(RxEnd::Done { len: if p.implicit { p.len } else { 13 }, off: 0 });
            ctl.set_status(*raw);
            let mut store = [CANARY; 256];
            let (_, ps) = if *via == 0 {
                block_on(lora.rx(&pp, &mut store))?
            } else {
                block_on(lora.start_rx())?;
                block_on(lora.get_rx_result(&pp, &mut store))?
            };
            sc.status = Some((ps.rssi as i64, ps.snr as i64));
            Ok(())
        }
        Op::Complete { m, p, raw, via } => {
            let mp = mk(lora, m)?;
            let pp = lora.create_rx_packet_params(p.pre, p.implicit, p.len, p.crc, p.iq, &mp)?;
            ctl.raise_rx(RxEnd::Done { len: if p.implicit { p.len } else { 13 }, off: 0 });
            ctl.set_status(*raw);
            let mut store = [CANARY; 256];
            let (_, ps) = if *via == 0 { block_on(lora.complete_rx(&pp, &mut store))? } else { block_on(lora.get_rx_result(&pp, &mut store))? };
            sc.status = Some((ps.rssi as i64, ps.snr as i64));
            Ok(())
        }
        Op::Rssi { raw, .. } => {
            ctl.set_rssi_inst(*raw);
            sc.rssi_inst = Some(block_on(lora.get_rssi())? as i64);
            Ok(())
        }
        _ => panic!("HARNESS-BUG: {} is not a LoRa-level operation", op_name(op)),
    })
}

fn exec_lw<RK: RadioKind>(lw: &mut LorawanRadio<RK, Delay, 22>, ctl: &dyn ChipCtl, op: &Op, sc: &mut Scratch) -> Result<(), String> {
    let rf = |m: &Mod| RfConfig { frequency: m.freq, bb: BaseBandModulationParams::new(SFS[m.sf], BWS[m.bw], CRS[m.cr]), max_payload_len: 255 };
    match op {
        Op::LwTx { m, power, len } => block_on(lw.tx(TxConfig { pw: *power, rf: rf(m) }, &PAYLOAD[..*len as usize])).map(|_| ()).map_err(|e| format!("{e:?}")),
        Op::LwRx { m, ms, end, buf } => {
            let mode = match ms {
                Some(ms) => LwRxMode::Single { ms: *ms },
                None => LwRxMode::Continuous,
            };
            block_on(lw.setup_rx(RxConfig { rf: rf(m), mode })).map_err(|e| format!("{e:?}"))?;
            if *end == RxEnd::None {
                return Ok(());
            }
            ctl.arm_rx(*end);
            let mut store = [CANARY; 256];
            let size = (*buf as usize).min(256);
            let (res, no_packet, out): (Result<usize, (String, Option<(usize, usize)>)>, bool, Result<(), String>) = if ms.is_some() {
                match block_on(lw.rx_single(&mut store[..size])) {
                    Ok(RxStatus::Rx(l, _)) => (Ok(l), false, Ok(())),
                    Ok(RxStatus::RxTimeout) => (Err(("RxTimeout".into(), None)), true, Ok(())),
                    Err(e) => lw_fetch_err(e),
                }
            } else {
                match block_on(lw.rx_continuous(&mut store[..size])) {
                    Ok((l, _)) => (Ok(l), false, Ok(())),
                    Err(e) => lw_fetch_err(e),
                }
            };
            sc.fetch = Some(FetchObs { result: res, no_packet, size, store: store.to_vec() });
            out
        }
        Op::LwRx2 { m, first, second, buf } => {
            block_on(lw.setup_rx(RxConfig { rf: rf(m), mode: LwRxMode::Continuous })).map_err(|e| format!("{e:?}"))?;
            ctl.arm_rx(RxEnd::Done { len: first.0, off: first.1 });
            let mut scratch = [CANARY; 256];
            block_on(lw.rx_continuous(&mut scratch)).map_err(|e| format!("{e:?}"))?;
            ctl.arm_rx(RxEnd::Done { len: second.0, off: second.1 });
            let mut store = [CANARY; 256];
            let size = (*buf as usize).min(256);
            let (res, out) = match block_on(lw.rx_continuous(&mut store[..size])) {
                Ok((l, _)) => (Ok(l), Ok(())),
                Err(e) => {
                    let x = lw_fetch_err(e);
                    (x.0, x.2)
                }
            };
            sc.fetch = Some(FetchObs { result: res, no_packet: false, size, store: store.to_vec() });
            out
        }
        Op::LwRxStat { m, ms, raw } => {
            let mode = match ms {
                Some(ms) => LwRxMode::Single { ms: *ms },
                None => LwRxMode::Continuous,
            };
            block_on(lw.setup_rx(RxConfig { rf: rf(m), mode })).map_err(|e| format!("{e:?}"))?;
            ctl.arm_rx(RxEnd::Done { len: 13, off: 0 });
            ctl.set_status(*raw);
            let mut store = [CANARY; 256];
            let q = if ms.is_some() {
                match block_on(lw.rx_single(&mut store)).map_err(|e| format!("{e:?}"))? {
                    RxStatus::Rx(_, q) => q,
                    RxStatus::RxTimeout => return Err("RxTimeout although RxDone was raised".into()),
                }
            } else {
                block_on(lw.rx_continuous(&mut store)).map_err(|e| format!("{e:?}"))?.1
            };
            sc.status = Some((q.rssi() as i64, q.snr() as i64));
            Ok(())
        }
        Op::LwLowPower => block_on(lw.low_power()).map_err(|e| format!("{e:?}")),
        _ => panic!("HARNESS-BUG: {} is not a LoRaWAN-adapter-level operation", op_name(op)),
    }
}

fn lw_fetch_err(e: lora_phy::lorawan_radio::Error) -> (Result<usize, (String, Option<(usize, usize)>)>, bool, Result<(), String>) {
    let text = format!("{e:?}");
    let mm = match e {
        lora_phy::lorawan_radio::Error::Radio(RadioError::PayloadSizeMismatch(a, b)) => Some((a, b)),
        _ => None,
    };
    (Err((text.clone(), mm)), false, Err(text))
}

fn run_on<RK: RadioKind>(radio: RK, iv: Iv, ctl: Rc<dyn ChipCtl>, h: &Hist) -> Outcome {
    let mut out = Outcome::default();
    let n = h.ops.len();
    // one step: clear the on-air log, run, observe
    macro_rules! steps {
        ($exec:expr) => {{
            for (i, op) in h.ops.iter().enumerate() {
                iv.waits.set(0);
                let last = i + 1 == n;
                if last {
                    ctl.clear_air();
                }
                let mut sc = Scratch { decision: None, fetch: None, fetch2: None, status: None, rssi_inst: None };
                let r: Result<(), String> = $exec(op, &mut sc);
                if last {
                    let (air, airs) = ctl.air();
                    out.last = StepObs { err: r.err(), air, airs, held: ctl.held(), decision: sc.decision, fetch: sc.fetch, fetch2: sc.fetch2, status: sc.status, rssi_inst: sc.rssi_inst };
                } else {
                    out.prefix_errs.push(r.err());
                }
            }
        }};
    }
    match h.level {
        KIND => {
            let mut radio = radio;
            // bring-up as LoRa::init does it: reset, wake, standby, LoRa packet engine
            let up: Result<(), RadioError> = (|| {
                block_on(radio.reset(&mut Delay))?;
                block_on(radio.ensure_ready(RadioMode::Sleep))?;
                block_on(radio.set_standby())?;
                block_on(radio.init_lora(0x3444))
            })();
            if let Err(e) = up {
                out.setup_err = Some(format!("{e:?}"));
                return out;
            }
            steps!(|op: &Op, sc: &mut Scratch| exec_kind(&mut radio, ctl.as_ref(), op, sc).map_err(|e| e.0));
        }
        LORA => {
            let mut lora = match block_on(LoRa::new(radio, true, Delay)) {
                Ok(l) => l,
                Err(e) => {
                    out.setup_err = Some(format!("{e:?}"));
                    return out;
                }
            };
            steps!(|op: &Op, sc: &mut Scratch| exec_lora(&mut lora, ctl.as_ref(), op, sc).map_err(|e| e.0));
        }
        _ => {
            let lora = match block_on(LoRa::new(radio, true, Delay)) {
                Ok(l) => l,
                Err(e) => {
                    out.setup_err = Some(format!("{e:?}"));
                    return out;
                }
            };
            let mut lw: LorawanRadio<RK, Delay, 22> = lora.into();
            steps!(|op: &Op, sc: &mut Scratch| exec_lw(&mut lw, ctl.as_ref(), op, sc));
        }
    }
    out.power_ons = ctl.power_ons();
    out.anomalies = ctl.anomalies();
    out
}

/// Executes a history on a fresh chip double + fresh driver instance. Panics propagate (callers wrap in `catch`).
pub fn run(h: &Hist) -> Outcome {
    fn wire(iv: &Iv, ctl: &Rc<dyn ChipCtl>) {
        let c = ctl.clone();
        iv.wire_reset(Rc::new(move || c.power_on()));
    }
    macro_rules! go {
        ($mk:expr, $ctl:expr) => {{
            let ctl: Rc<dyn ChipCtl> = Rc::new($ctl);
            let (r, iv) = $mk;
            wire(&iv, &ctl);
            run_on(r, iv, ctl, h)
        }};
    }
    match CHIPS[h.chip] {
        "sx1261" => {
            let c = rig::new126();
            go!(rig::sx126x_board(&c, Sx1261, h.board), Ctl126(c.clone()))
        }
        "sx1262" => {
            let c = rig::new126();
            go!(rig::sx126x_board(&c, Sx1262, h.board), Ctl126(c.clone()))
        }
        "stm32wl-hp" => {
            let c = rig::new126();
            go!(rig::sx126x_board(&c, Stm32wl { use_high_power_pa: true }, h.board), Ctl126(c.clone()))
        }
        "stm32wl-lp" => {
            let c = rig::new126();
            go!(rig::sx126x_board(&c, Stm32wl { use_high_power_pa: false }, h.board), Ctl126(c.clone()))
        }
        "sx1276" => {
            let c = rig::new127(Kind::Sx1276);
            go!(rig::sx1276_board(&c, h.board), Ctl127(c.clone()))
        }
        "sx1272" => {
            let c = rig::new127(Kind::Sx1272);
            go!(rig::sx1272_board(&c, h.board), Ctl127(c.clone()))
        }
        _ => {
            let c = rig::new_lr();
            go!(rig::lr1110_board(&c, h.board), CtlLr(c.clone()))
        }
    }
}

// ------------------------------------------------------------------ generation

/// the request context of an operation: its modulation, packet parameters and power, with defaults where it has none
pub fn context(j: &Op) -> (Mod, Pkt, i32) {
    let dm = Mod { sf: 2, bw: 7, cr: 0, freq: 868_100_000 };
    let dp = Pkt::new(false, 255);
    match j {
        Op::Tx { m, power, .. } | Op::Cw { m, power } => (*m, dp, *power),
        Op::Rx { m, p, .. } | Op::Rx2 { m, p, .. } | Op::RxStat { m, p, .. } | Op::Complete { m, p, .. } => (*m, *p, 14),
        Op::Rssi { m, .. } | Op::KStatus { m, .. } | Op::KRssi { m, .. } | Op::LwRxStat { m, .. } => (*m, dp, 14),
        Op::Listen { freq, bw } => (Mod { sf: 2, bw: *bw, cr: 0, freq: *freq }, dp, 14),
        Op::Cad { m } | Op::KMod { m } | Op::KDoCad { m } => (*m, dp, 14),
        Op::Switch { freq } | Op::KChannel { freq } => (Mod { freq: *freq, ..dm }, dp, 14),
        Op::KPkt { p } | Op::KFetch { p, .. } => (dm, *p, 14),
        Op::KPower { power, m, .. } => (m.unwrap_or(dm), dp, *power),
        Op::LwTx { m, power, .. } => (*m, dp, *power as i32),
        Op::LwRx { m, .. } | Op::LwRx2 { m, .. } => (*m, dp, 14),
        _ => (dm, dp, 14),
    }
}

fn ldro_on(sf: usize, bw: usize) -> bool {
    ldro_rule(SF_NUM[sf], NOMINAL_BW_MILLIHZ[bw])
}

/// modulation settings that differ from `m` in everything that matters: the other LDRO decision (at a
/// bandwidth every chip supports), another coding rate, another frequency
pub fn other_mod(m: &Mod) -> Mod {
    let (sf, bw) = if ldro_on(m.sf, m.bw) { (2, 7) } else { (7, 7) };
    Mod { sf, bw, cr: (m.cr + 1) % 4, freq: if m.freq % 400_000 == 0 { m.freq + 200_000 } else { m.freq - m.freq % 400_000 + 400_000 } }
}
/// the same settings in the OTHER frequency band (the SX1276 has separate LF / HF ports with their own RSSI offset,
/// image calibration is per band): 433.175 MHz for a request above 600 MHz, 868.1 MHz otherwise
pub fn cross_band(m: &Mod) -> Mod {
    Mod { freq: if m.freq > 600_000_000 { 433_175_000 } else { 868_100_000 }, ..*m }
}
/// a third setting: same frequency as `m`, SF9 / 125 kHz (or SF10 if `m` is that)
pub fn third_mod(m: &Mod) -> Mod {
    Mod { sf: if m.sf == 4 && m.bw == 7 { 5 } else { 4 }, bw: 7, cr: m.cr, freq: m.freq }
}
/// packet parameters that differ from `p`: (another implicit length, the other header mode)
pub fn other_pkts(p: &Pkt) -> (Pkt, Pkt) {
    if p.implicit {
        let l = if p.len >= 40 { p.len / 2 - 3 } else { p.len + 23 };
        (Pkt::new(true, l).with(!p.crc, p.iq, 12), Pkt::new(false, 255).with(p.crc, !p.iq, 65535))
    } else {
        (Pkt::new(false, if p.len == 255 { 64 } else { 255 }).with(!p.crc, p.iq, 12), Pkt::new(true, 12).with(p.crc, !p.iq, 65535))
    }
}
pub fn other_power(p: i32) -> i32 {
    if p == 14 {
        2
    } else {
        14
    }
}

/// The operation alphabet relative to a judged request: the same request again, requests with different
/// values, receive operations that complete / time out / are never started, and what makes chip or driver
/// forget (sleep warm / cold, init or reset).
pub fn alphabet(level: usize, j: &Op) -> Vec<Op> {
    alphabet_with(level, j, false)
}

/// `cross`: also operations in the other frequency band (see `cross_band`)
pub fn alphabet_with(level: usize, j: &Op, cross: bool) -> Vec<Op> {
    let mut a = alphabet_base(level, j);
    if cross {
        let (m, p, w) = context(j);
        let x = cross_band(&m);
        match level {
            KIND => a.extend([Op::KChannel { freq: x.freq }, Op::KMod { m: x }]),
            LORA => a.extend([
                Op::Switch { freq: x.freq },
                Op::Tx { m: x, power: w, len: 13 },
                Op::Rx { m: x, p, mode: Mode::Continuous, end: RxEnd::None, buf: 256 },
                Op::Listen { freq: x.freq, bw: x.bw },
                Op::Cad { m: x },
            ]),
            _ => a.extend([Op::LwTx { m: x, power: w as i8, len: 13 }, Op::LwRx { m: x, ms: None, end: RxEnd::Done { len: 13, off: 0 }, buf: 256 }]),
        }
    }
    a
}

fn alphabet_base(level: usize, j: &Op) -> Vec<Op> {
    let (m, p, w) = context(j);
    let m2 = other_mod(&m);
    let (pa, pb) = other_pkts(&p);
    let w2 = other_power(w);
    let done = |p: &Pkt| RxEnd::Done { len: if p.implicit { p.len.wrapping_add(5) } else { 13 }, off: 0 };
    match level {
        KIND => vec![
            Op::KChannel { freq: m.freq },
            Op::KChannel { freq: m2.freq },
            Op::KMod { m },
            Op::KMod { m: m2 },
            Op::KPkt { p },
            Op::KPkt { p: pa },
            Op::KPkt { p: pb },
            Op::KPower { power: w, m: Some(m), tx_prep: true },
            Op::KPower { power: w2, m: None, tx_prep: false },
            Op::KSleep { warm: true },
            Op::KSleep { warm: false },
            Op::KReset,
            Op::KInitLora,
            Op::KStandby,
            Op::KDoTx,
            Op::KDoRx { mode: Mode::Single(20) },
            Op::KDoRx { mode: Mode::Continuous },
            Op::KDoCad { m },
        ],
        LORA => vec![
            Op::Tx { m, power: w, len: 13 },
            Op::Tx { m: m2, power: w2, len: 7 },
            Op::Rx { m, p, mode: Mode::Single(20), end: done(&p), buf: 256 },
            Op::Rx { m, p, mode: Mode::Single(20), end: RxEnd::Timeout, buf: 256 },
            Op::Rx { m, p, mode: Mode::Continuous, end: RxEnd::None, buf: 256 },
            Op::Rx { m, p: pa, mode: Mode::Single(20), end: done(&pa), buf: 256 },
            Op::Rx { m, p: pb, mode: Mode::Single(20), end: RxEnd::None, buf: 256 },
            Op::Rx { m: m2, p: pa, mode: Mode::Continuous, end: done(&pa), buf: 256 },
            Op::Rx2 { m, p, first: (if p.implicit { p.len } else { 21 }, 0), second: (if p.implicit { p.len } else { 34 }, 21), buf: 256, refetch: false },
            Op::Listen { freq: m.freq, bw: m.bw },
            Op::Listen { freq: m2.freq, bw: m2.bw },
            Op::Cad { m },
            Op::Switch { freq: m2.freq },
            Op::Sleep { warm: true },
            Op::Sleep { warm: false },
            Op::Init,
        ],
        _ => vec![
            Op::LwTx { m, power: w as i8, len: 13 },
            Op::LwTx { m: m2, power: w2 as i8, len: 23 },
            Op::LwRx { m, ms: Some(20), end: RxEnd::Done { len: 13, off: 0 }, buf: 256 },
            Op::LwRx { m, ms: Some(20), end: RxEnd::Timeout, buf: 256 },
            Op::LwRx { m, ms: None, end: RxEnd::None, buf: 256 },
            Op::LwRx { m: m2, ms: None, end: RxEnd::Done { len: 40, off: 7 }, buf: 256 },
            Op::LwRx2 { m, first: (21, 0), second: (34, 21), buf: 256 },
            Op::LwLowPower,
        ],
    }
}

/// every prefix of depth 0..=`depth` over the alphabet of `j`
pub fn prefixes(level: usize, j: &Op, depth: usize) -> Vec<Vec<Op>> {
    prefixes_with(level, j, depth, false)
}

pub fn prefixes_with(level: usize, j: &Op, depth: usize, cross: bool) -> Vec<Vec<Op>> {
    let a = alphabet_with(level, j, cross);
    let mut out: Vec<Vec<Op>> = vec![vec![]];
    let mut layer: Vec<Vec<Op>> = vec![vec![]];
    for _ in 0..depth {
        let mut next = Vec::with_capacity(layer.len() * a.len());
        for pre in &layer {
            for op in &a {
                let mut v = pre.clone();
                v.push(*op);
                next.push(v);
            }
        }
        out.extend(next.iter().cloned());
        layer = next;
    }
    out
}

/// An abstract prefix operation: indices into pools that are resolved relative to the judged request
/// (index 0 = "same as the judged request", so shrinking moves towards repeats of the request).
#[derive(Debug, Clone, Copy)]
pub struct AOp {
    pub kind: u8,
    pub mi: u8,
    pub pi: u8,
    pub wi: u8,
    pub x: u8,
    pub y: u8,
}

pub fn resolve(level: usize, chip: usize, j: &Op, a: &AOp) -> Op {
    let (m, p, w) = context(j);
    // index 3 (the other frequency band) is only drawn by `strategy_cross`
    let mods = [m, other_mod(&m), third_mod(&m), cross_band(&m)];
    let (pa, pb) = other_pkts(&p);
    let pkts = [p, pa, pb];
    let pows = [w, other_power(w), 22, -9];
    let mm = mods[a.mi as usize % 4];
    let pp = pkts[a.pi as usize % 3];
    let ww = pows[a.wi as usize % 4];
    let modes = [Mode::Single(20), Mode::Continuous, Mode::Single(5), Mode::DutyCycle];
    // RxMode::DutyCycle is documented as not supported on the SX127x (do_rx refuses it, get_irq_state is `todo!()` for
    // it): not requested there, like continuous_wave on the SX1272
    let mode = match modes[a.x as usize % 4] {
        Mode::DutyCycle if family(chip) == "sx127x" => Mode::Continuous,
        other => other,
    };
    let ends = [RxEnd::Done { len: if pp.implicit { pp.len.wrapping_add(5) } else { 13 }, off: 0 }, RxEnd::Timeout, RxEnd::None, RxEnd::Done { len: 200, off: 0xF0 }];
    let end = ends[a.y as usize % 4];
    match level {
        KIND => match a.kind % 13 {
            0 => Op::KChannel { freq: mm.freq },
            1 => Op::KMod { m: mm },
            2 => Op::KPkt { p: pp },
            3 => Op::KPower { power: ww, m: if a.x % 2 == 0 { Some(mm) } else { None }, tx_prep: a.y % 2 == 0 },
            4 => Op::KSleep { warm: a.x % 2 == 1 },
            5 => Op::KReset,
            6 => Op::KInitLora,
            7 => Op::KStandby,
            8 => Op::KDoTx,
            9 => Op::KDoRx { mode },
            10 => Op::KDoCad { m: mm },
            11 => Op::KFetch { p: pp, len: 13, off: a.y, buf: 256 },
            _ => Op::KSleep { warm: false },
        },
        LORA => match a.kind % 12 {
            0 => Op::Tx { m: mm, power: ww, len: 1 + a.y % 40 },
            1 => Op::Rx { m: mm, p: pp, mode, end, buf: 256 },
            2 => Op::Sleep { warm: a.x % 2 == 1 },
            3 => Op::Listen { freq: mm.freq, bw: mm.bw },
            4 => Op::Cad { m: mm },
            5 => Op::Init,
            6 => Op::Switch { freq: mm.freq },
            // SX1272 continuous wave is `todo!()` in the crate (documented as unimplemented): not requested there
            7 => {
                if CHIPS[chip] == "sx1272" {
                    Op::Standby
                } else {
                    Op::Cw { m: mm, power: ww }
                }
            }
            8 => Op::Standby,
            9 => Op::Rx { m: mm, p: pp, mode: Mode::Single(20), end: RxEnd::None, buf: 256 },
            10 => Op::Rx2 { m: mm, p: pp, first: (if pp.implicit { pp.len } else { 21 }, a.y), second: (if pp.implicit { pp.len } else { 34 }, a.y.wrapping_add(21)), buf: 256, refetch: a.x % 2 == 0 },
            _ => Op::Sleep { warm: false },
        },
        _ => match a.kind % 5 {
            0 => Op::LwTx { m: mm, power: ww as i8, len: 1 + a.y % 40 },
            1 => Op::LwRx { m: mm, ms: if a.x % 2 == 0 { Some(20) } else { None }, end, buf: 256 },
            2 => Op::LwLowPower,
            3 => Op::LwRx2 { m: mm, first: (21, a.y), second: (34, a.y.wrapping_add(21)), buf: 256 },
            _ => Op::LwRx { m: mm, ms: Some(5), end: RxEnd::None, buf: 256 },
        },
    }
}

pub fn aop_strategy() -> impl Strategy<Value = AOp> {
    (0u8..156, 0u8..3, 0u8..3, 0u8..4, 0u8..4, 0u8..4).prop_map(|(kind, mi, pi, wi, x, y)| AOp { kind, mi, pi, wi, x, y })
}

/// like `strategy`, with operations in the other frequency band among the prefix operations
pub fn strategy_cross(n_requests: usize, max_len: usize) -> impl Strategy<Value = (usize, Vec<AOp>)> {
    let aop = (0u8..156, 0u8..4, 0u8..3, 0u8..4, 0u8..4, 0u8..4).prop_map(|(kind, mi, pi, wi, x, y)| AOp { kind, mi, pi, wi, x, y });
    (0..n_requests, proptest::collection::vec(aop, 1..=max_len))
}

/// (index of the judged request in the caller's list, abstract prefix of 1..=max_len operations)
pub fn strategy(n_requests: usize, max_len: usize) -> impl Strategy<Value = (usize, Vec<AOp>)> {
    (0..n_requests, proptest::collection::vec(aop_strategy(), 1..=max_len))
}

pub fn build(level: usize, chip: usize, board: u8, j: &Op, aops: &[AOp]) -> Hist {
    let mut ops: Vec<Op> = aops.iter().map(|a| resolve(level, chip, j, a)).collect();
    ops.push(*j);
    Hist { chip, board, level, ops }
}

/// short description of what a prefix contains, for the evidence classes
pub fn prefix_features(h: &Hist) -> Vec<&'static str> {
    let j = h.judged();
    let (m, p, _) = context(j);
    let mut v = vec![];
    let pre = &h.ops[..h.ops.len() - 1];
    if pre.iter().any(|o| std::mem::discriminant(o) == std::mem::discriminant(j) && context(o) == context(j)) {
        v.push("same-request-earlier");
    }
    if pre.iter().any(|o| matches!(o, Op::Sleep { warm: false } | Op::KSleep { warm: false } | Op::LwLowPower)) {
        v.push("cold-sleep");
    }
    if pre.iter().any(|o| matches!(o, Op::Sleep { warm: true } | Op::KSleep { warm: true })) {
        v.push("warm-sleep");
    }
    if pre.iter().any(|o| matches!(o, Op::Init | Op::KReset)) {
        v.push("init-or-reset");
    }
    if pre.iter().any(|o| matches!(o, Op::Listen { .. })) {
        v.push("listen");
    }
    if pre.iter().any(|o| {
        let (m2, p2, _) = context(o);
        !matches!(o, Op::Sleep { .. } | Op::KSleep { .. } | Op::Init | Op::KReset | Op::Standby | Op::KStandby | Op::KInitLora | Op::KDoTx | Op::LwLowPower | Op::KDoRx { .. }) && (m2 != m || p2 != p)
    }) {
        v.push("different-values-earlier");
    }
    if pre.iter().any(|o| matches!(o, Op::Rx { end: RxEnd::Done { .. }, .. } | Op::LwRx { end: RxEnd::Done { .. }, .. } | Op::Rx2 { .. } | Op::LwRx2 { .. })) {
        v.push("completed-reception");
    }
    if pre.iter().any(|o| matches!(o, Op::Rx { end: RxEnd::Timeout, .. } | Op::LwRx { end: RxEnd::Timeout, .. })) {
        v.push("timed-out-reception");
    }
    if pre.iter().any(|o| matches!(o, Op::Rx { end: RxEnd::None, .. } | Op::LwRx { end: RxEnd::None, .. })) {
        v.push("reception-prepared-not-started");
    }
    v
}

/// the fetch observation in the shape c18's judge takes
pub fn as_fetch(f: &FetchObs) -> Fetch {
    if f.no_packet {
        return Fetch::NoPacket;
    }
    match &f.result {
        Ok(l) => Fetch::Ok(*l),
        Err((t, mm)) => Fetch::Err(t.clone(), *mm),
    }
}
