//! C15 — low-data-rate optimisation is decided identically everywhere (exhaustive enumeration).
//!
//! Every (SF, BW) pair is pushed through the airtime calculator (`BaseBandModulationParams::new`)
//! and through every driver (SX126x: SX1261, SX1262, STM32WL HP/LP; SX127x: SX1276, SX1272; LR1110),
//! both at the `RadioKind` level (`create_modulation_params` + `set_modulation_params`) and through
//! the public paths (`LoRa::prepare_for_rx` / `prepare_for_tx`, `LorawanRadio::setup_rx` / `tx`).
//! The decision is read from `ModulationParams.low_data_rate_optimize`; what the chip was told is
//! read from the chip model: SetModulationParams byte 4 (SX126x opcode 0x8B, LR11xx opcode 0x020F),
//! RegModemConfig3 bit 3 (SX1276), RegModemConfig1 bit 0 (SX1272).
//!
//! Oracle: (1) decision == programmed bit; (2) decision == (2^SF / BW_nominal >= 16.38 ms) in exact
//! arithmetic; for the pair where nominal and rounded bandwidth constants fall on different sides
//! of the threshold only agreement with the airtime calculator is required.

use crate::drive::chip127x::{Kind, REG_MODEM_CONFIG1, REG_MODEM_CONFIG3};
use crate::drive::rig;
use crate::drive::{block_on, panic_failure, Delay};
use lora_modulation::{Bandwidth, BaseBandModulationParams, CodingRate, SpreadingFactor};
use lora_phy::lorawan_radio::LorawanRadio;
use lora_phy::mod_params::RadioError;
use lora_phy::mod_traits::RadioKind;
use lora_phy::sx126x::{Stm32wl, Sx1261, Sx1262};
use lora_phy::{LoRa, RxMode};
use lorawan_device::async_device::radio::{PhyRxTx, RfConfig, RxConfig, RxMode as LwRxMode, TxConfig};
use serde_json::{json, Value};
use verif_core::oracle::airtime::{ldro_rule, NOMINAL_BW_MILLIHZ};
use verif_core::*;

mod hist_stage;

pub const SFS: [SpreadingFactor; 8] = [
    SpreadingFactor::_5,
    SpreadingFactor::_6,
    SpreadingFactor::_7,
    SpreadingFactor::_8,
    SpreadingFactor::_9,
    SpreadingFactor::_10,
    SpreadingFactor::_11,
    SpreadingFactor::_12,
];
pub const BWS: [Bandwidth; 10] = [
    Bandwidth::_7KHz,
    Bandwidth::_10KHz,
    Bandwidth::_15KHz,
    Bandwidth::_20KHz,
    Bandwidth::_31KHz,
    Bandwidth::_41KHz,
    Bandwidth::_62KHz,
    Bandwidth::_125KHz,
    Bandwidth::_250KHz,
    Bandwidth::_500KHz,
];
pub const CRS: [CodingRate; 4] = [CodingRate::_4_5, CodingRate::_4_6, CodingRate::_4_7, CodingRate::_4_8];
/// spreading factor numbers / bandwidths as plain data (the harness's own: identifies the enum
/// variants in case files, not taken from the crate's accessor functions)
pub const SF_NUM: [u32; 8] = [5, 6, 7, 8, 9, 10, 11, 12];
/// the rounded constants the crate documents for `Bandwidth::hz()` (used only to find the
/// "don't-care" pair and as case-file labels)
pub const BW_ROUNDED_HZ: [u32; 10] = [7810, 10420, 15630, 20830, 31250, 41670, 62500, 125000, 250000, 500000];
pub const CR_DENOM: [u32; 4] = [5, 6, 7, 8];

const IMPLS: [&str; 8] = ["baseband", "sx1261", "sx1262", "stm32wl-hp", "stm32wl-lp", "sx1276", "sx1272", "lr1110"];
const PATHS: [&str; 5] = ["kind", "lora-rx", "lora-tx", "lorawan-rx", "lorawan-tx"];
/// frequency classes: the low band and its edges (250/500 kHz are refused below 400 MHz: the last Hz below and the
/// threshold itself), 433 / 470 MHz, the SX1276 LF/HF port edge (525 MHz), 779, 868, 915, 923 MHz and the upper end
/// The carrier frequency is an argument of every driver's create_modulation_params: whatever a driver accepts is inside
/// the quantifier, so the classes also hold the 2.4 GHz band of the LR1120/LR1121 (its lower edge, the last Hz below it,
/// two channels inside, its upper end) and the extremes of the argument type.
const FREQS: [u32; 20] = [
    169_000_000, 433_175_000, 868_100_000, 915_000_000, 137_000_000, 399_999_999, 400_000_000, 470_300_000, 525_000_000, 779_500_000, 923_200_000, 1_020_000_000,
    2_399_999_999, 2_400_000_000, 2_403_000_000, 2_479_000_000, 2_500_000_000, 1, 1_020_000_001, u32::MAX,
];

fn family(imp: &str) -> &'static str {
    match imp {
        "baseband" => "baseband",
        "sx1261" | "sx1262" | "stm32wl-hp" | "stm32wl-lp" => "sx126x",
        "sx1276" | "sx1272" => "sx127x",
        _ => "lr1110",
    }
}

/// (rule with the nominal bandwidth, rule with the rounded constant)
fn rules(sf: usize, bw: usize) -> (bool, bool) {
    (ldro_rule(SF_NUM[sf], NOMINAL_BW_MILLIHZ[bw]), ldro_rule(SF_NUM[sf], BW_ROUNDED_HZ[bw] as u64 * 1000))
}
fn dont_care(sf: usize, bw: usize) -> bool {
    let (a, b) = rules(sf, bw);
    a != b
}
/// nominal symbol time in ns (exact for the dyadic bandwidths, rounded for the /3 ones)
fn t_sym_ns(sf: usize, bw: usize) -> u128 {
    (1u128 << SF_NUM[sf]) * 1_000_000_000_000 / NOMINAL_BW_MILLIHZ[bw] as u128
}
/// pair within a factor 2 of the 16.38 ms threshold
fn boundary_pair(sf: usize, bw: usize) -> bool {
    let t = t_sym_ns(sf, bw);
    t > 8_190_000 && t < 32_760_000
}
/// nominal symbol time exactly 16.384 ms
fn exactly_16384us(sf: usize, bw: usize) -> bool {
    (1u128 << SF_NUM[sf]) * 1_000_000_000 == 16_384u128 * NOMINAL_BW_MILLIHZ[bw] as u128
}
fn lorawan_pair(sf: usize, bw: usize) -> bool {
    (bw == 7 && (sf == 6 || sf == 7)) || (bw == 8 && sf == 7)
}

#[derive(Debug, Clone, Default)]
struct Obs {
    /// Some(reason) when the driver refused the pair
    rejected: Option<String>,
    /// ModulationParams.low_data_rate_optimize / BaseBandModulationParams.ldro
    decision: Option<u8>,
    /// raw LDRO byte / bit the chip was told last
    programmed: Option<u8>,
    /// number of times the modulation parameters were programmed
    programmed_count: u32,
}

#[derive(Debug, Clone)]
struct Case {
    imp: usize,
    path: usize,
    sf: usize,
    bw: usize,
    cr: usize,
    freq: u32,
    /// prior content of the register that holds the LDRO bit (SX127x only)
    prior: u8,
    /// board options: bit 0 rx_boost, bit 1 tx_boost (SX127x) / DC-DC (SX126x, LR1110), bit 2 TCXO; LR1110 also bit 3
    /// high-power PA, bit 4 DIOs as RF switch
    board: u8,
    /// which of the VARIANTS of the remaining request parameters (packet parameters, receive mode, power, payload) is used
    variant: u8,
}

/// The remaining parameters of a request through LoRa / LorawanRadio. They do not enter the LDRO decision, but they share
/// registers (SX1272 RegModemConfig1: BW, CR, header mode, CRC, LDRO; SX1276 RegModemConfig2/3) and command sequences with it.
struct Variant {
    preamble: u16,
    implicit: bool,
    crc: bool,
    iq: bool,
    rx_len: u8,
    /// 0 Single(20), 1 Continuous, 2 Single(0), 3 Single(65535)
    rx_mode: u8,
    power: i32,
    tx_len: usize,
    /// adapter: Some(ms) = Single, None = Continuous
    lw_ms: Option<u32>,
    public_network: bool,
}
const VARIANTS: [Variant; 4] = [
    Variant { preamble: 8, implicit: false, crc: true, iq: true, rx_len: 32, rx_mode: 0, power: 10, tx_len: 4, lw_ms: Some(50), public_network: false },
    Variant { preamble: 0, implicit: true, crc: false, iq: false, rx_len: 0, rx_mode: 1, power: 22, tx_len: 1, lw_ms: None, public_network: true },
    Variant { preamble: 65_535, implicit: false, crc: true, iq: false, rx_len: 255, rx_mode: 2, power: -9, tx_len: 255, lw_ms: Some(0), public_network: true },
    Variant { preamble: 12, implicit: true, crc: false, iq: true, rx_len: 1, rx_mode: 3, power: 0, tx_len: 13, lw_ms: Some(1000), public_network: false },
];
const TX_PAYLOAD: [u8; 255] = [0x5A; 255];

impl Case {
    fn json(&self) -> Value {
        json!({"kind":"ldro","impl":IMPLS[self.imp],"path":PATHS[self.path],"sf":SF_NUM[self.sf],"bw_hz":BW_ROUNDED_HZ[self.bw],
               "cr_denom":CR_DENOM[self.cr],"freq_hz":self.freq,"prior_reg":self.prior,"board_options":self.board,"variant":self.variant})
    }
    fn from_json(v: &Value) -> Option<Case> {
        Some(Case {
            imp: IMPLS.iter().position(|s| Some(*s) == v["impl"].as_str())?,
            path: PATHS.iter().position(|s| Some(*s) == v["path"].as_str())?,
            sf: SF_NUM.iter().position(|s| Some(*s as u64) == v["sf"].as_u64())?,
            bw: BW_ROUNDED_HZ.iter().position(|s| Some(*s as u64) == v["bw_hz"].as_u64())?,
            cr: CR_DENOM.iter().position(|s| Some(*s as u64) == v["cr_denom"].as_u64())?,
            freq: v["freq_hz"].as_u64()? as u32,
            prior: v["prior_reg"].as_u64().unwrap_or(0) as u8,
            board: v["board_options"].as_u64().unwrap_or(0) as u8,
            variant: (v["variant"].as_u64().unwrap_or(0) as u8) % VARIANTS.len() as u8,
        })
    }
}

fn rej<E: core::fmt::Debug>(e: E) -> Obs {
    Obs { rejected: Some(format!("{e:?}")), ..Default::default() }
}

/// Drives one radio through one path. `observe` reads (raw LDRO value, programming count) from the chip model;
/// `prime` sets the prior register content just before the modulation parameters are programmed.
fn drive<RK: RadioKind>(radio: RK, c: &Case, prime: &dyn Fn(), observe: &dyn Fn() -> (Option<u8>, u32)) -> Obs {
    let (sf, bw, cr) = (SFS[c.sf], BWS[c.bw], CRS[c.cr]);
    let v = &VARIANTS[c.variant as usize % VARIANTS.len()];
    let implicit = c.sf == 1 || v.implicit; // SF6 needs implicit header on SX127x; harmless elsewhere
    match PATHS[c.path] {
        "kind" => {
            let mut radio = radio;
            let mp = match radio.create_modulation_params(sf, bw, cr, c.freq) {
                Ok(m) => m,
                Err(e) => return rej(e),
            };
            prime();
            if let Err(e) = block_on(radio.set_modulation_params(&mp)) {
                return rej(e);
            }
            let (p, n) = observe();
            Obs { rejected: None, decision: Some(mp.low_data_rate_optimize), programmed: p, programmed_count: n }
        }
        "lora-rx" | "lora-tx" => {
            let mut lora = match block_on(LoRa::new(radio, v.public_network, Delay)) {
                Ok(l) => l,
                Err(e) => return rej(e),
            };
            let mp = match lora.create_modulation_params(sf, bw, cr, c.freq) {
                Ok(m) => m,
                Err(e) => return rej(e),
            };
            prime();
            let r: Result<(), RadioError> = if PATHS[c.path] == "lora-rx" {
                let mode = match v.rx_mode {
                    0 => RxMode::Single(20),
                    1 => RxMode::Continuous,
                    2 => RxMode::Single(0),
                    _ => RxMode::Single(65_535),
                };
                match lora.create_rx_packet_params(v.preamble, implicit, v.rx_len, v.crc, v.iq, &mp) {
                    Ok(pp) => block_on(lora.prepare_for_rx(mode, &mp, &pp)),
                    Err(e) => Err(e),
                }
            } else {
                match lora.create_tx_packet_params(v.preamble, implicit, v.crc, !v.iq, &mp) {
                    Ok(mut pp) => block_on(lora.prepare_for_tx(&mp, &mut pp, v.power, &TX_PAYLOAD[..v.tx_len])),
                    Err(e) => Err(e),
                }
            };
            if let Err(e) = r {
                return rej(e);
            }
            let (p, n) = observe();
            Obs { rejected: None, decision: Some(mp.low_data_rate_optimize), programmed: p, programmed_count: n }
        }
        _ => {
            let lora = match block_on(LoRa::new(radio, true, Delay)) {
                Ok(l) => l,
                Err(e) => return rej(e),
            };
            let mut lw: LorawanRadio<RK, Delay, 22> = lora.into();
            let rf = RfConfig { frequency: c.freq, bb: BaseBandModulationParams::new(sf, bw, cr), max_payload_len: 255 };
            prime();
            let r = if PATHS[c.path] == "lorawan-rx" {
                let mode = match v.lw_ms {
                    Some(ms) => LwRxMode::Single { ms },
                    None => LwRxMode::Continuous,
                };
                block_on(lw.setup_rx(RxConfig { rf, mode }))
            } else {
                block_on(lw.tx(TxConfig { pw: v.power as i8, rf }, &TX_PAYLOAD[..v.tx_len.max(13)])).map(|_| ())
            };
            if let Err(e) = r {
                return rej(e);
            }
            let (p, n) = observe();
            // the adapter does not expose the ModulationParams it built: the decision is what reached the chip
            Obs { rejected: None, decision: None, programmed: p, programmed_count: n }
        }
    }
}

fn observe_case(c: &Case) -> Obs {
    let imp = IMPLS[c.imp];
    match family(imp) {
        "baseband" => {
            let p = BaseBandModulationParams::new(SFS[c.sf], BWS[c.bw], CRS[c.cr]);
            // the decision the calculator *uses*: which setting of the DE term reproduces the time on air
            // it reports for a 60-byte explicit-header frame (C16 judges the value itself)
            let got = p.time_on_air_us(Some(8), true, 60) as u128;
            let (sf, bw, crd) = (SF_NUM[c.sf] as u32, BWS[c.bw].hz(), 5 + c.cr as u32);
            let with = |de: bool| verif_core::oracle::airtime::time_on_air_us(sf, bw, crd, de, Some(8), true, 60);
            let used = match (got == with(false), got == with(true)) {
                (true, false) => Some(0u8),
                (false, true) => Some(1u8),
                _ => None,
            };
            Obs { rejected: None, decision: Some(p.ldro as u8), programmed: used, programmed_count: 0 }
        }
        "sx126x" => {
            let chip = rig::new126();
            let obs = {
                let ch = chip.clone();
                move || {
                    let c = ch.borrow();
                    (c.mod_params.map(|m| m[3]), c.mod_params_count)
                }
            };
            let noprime = || {};
            match imp {
                "sx1261" => drive(rig::sx126x_board(&chip, Sx1261, c.board).0, c, &noprime, &obs),
                "sx1262" => drive(rig::sx126x_board(&chip, Sx1262, c.board).0, c, &noprime, &obs),
                "stm32wl-hp" => drive(rig::sx126x_board(&chip, Stm32wl { use_high_power_pa: true }, c.board).0, c, &noprime, &obs),
                _ => drive(rig::sx126x_board(&chip, Stm32wl { use_high_power_pa: false }, c.board).0, c, &noprime, &obs),
            }
        }
        "sx127x" => {
            let kind = if imp == "sx1276" { Kind::Sx1276 } else { Kind::Sx1272 };
            let chip = rig::new127(kind);
            let prior = c.prior;
            let prime = {
                let ch = chip.clone();
                move || {
                    let mut c = ch.borrow_mut();
                    let reg = if kind == Kind::Sx1276 { REG_MODEM_CONFIG3 } else { REG_MODEM_CONFIG1 };
                    c.set_reg(reg, prior);
                    c.clear_written();
                }
            };
            let obs = {
                let ch = chip.clone();
                move || {
                    let c = ch.borrow();
                    if c.ldro_reg_written() {
                        (Some(c.ldro_bit() as u8), 1)
                    } else {
                        (None, 0)
                    }
                }
            };
            if kind == Kind::Sx1276 {
                drive(rig::sx1276_board(&chip, c.board).0, c, &prime, &obs)
            } else {
                drive(rig::sx1272_board(&chip, c.board).0, c, &prime, &obs)
            }
        }
        _ => {
            let chip = rig::new_lr();
            let obs = {
                let ch = chip.clone();
                move || {
                    let c = ch.borrow();
                    (c.mod_params.map(|m| m[3]), c.mod_params_count)
                }
            };
            drive(rig::lr1110_board(&chip, c.board).0, c, &|| {}, &obs)
        }
    }
}

/// An active known finding that explains this failure (fingerprint AND trigger must match).
fn known(kf: &KnownFindings, fam: &str, c: &Case, fp: &str) -> Option<&'static str> {
    let (id, want_fp, trigger): (&'static str, &str, bool) = match fam {
        // SX126x driver switches LDRO on for the three LoRaWAN pairs only: every narrower-band pair
        // whose symbol time reaches the threshold stays off
        "sx126x" => ("C15-sx126x-ldro-only-lorawan-pairs", "ldro-rule/sx126x/off-but-required", c.bw < 7),
        "lr1110" => ("C15-lr1110-ldro-only-lorawan-pairs", "ldro-rule/lr1110/off-but-required", c.bw < 7),
        // SX127x integer formula 1000 / (bw / 2^sf) > 16 truncates 16.384 ms to 16
        "sx127x" => ("C15-sx127x-ldro-off-at-16384us", "ldro-rule/sx127x/off-but-required", exactly_16384us(c.sf, c.bw)),
        _ => return None,
    };
    if trigger && fp == want_fp && kf.is_active(id) {
        Some(id)
    } else {
        None
    }
}

enum Verdict {
    Ok,
    Tolerated(&'static str),
    Fail(Failure),
}

fn judge(c: &Case, o: &Obs, kf: &KnownFindings) -> Verdict {
    if o.rejected.is_some() {
        return Verdict::Ok;
    }
    let fam = family(IMPLS[c.imp]);
    let pair = format!("SF{} @ {} Hz", SF_NUM[c.sf], BW_ROUNDED_HZ[c.bw]);
    if fam == "baseband" {
        if let (Some(d), Some(p)) = (o.decision, o.programmed) {
            if (d != 0) != (p != 0) {
                return Verdict::Fail(Failure::new("ldro-programmed", c.json(), format!("{pair}: the airtime calculator reports low_data_rate_optimize={d} but computes the time on air as if it were {p}")).with_fp("ldro-programmed-differs/baseband"));
            }
        }
    } else {
        let Some(p) = o.programmed else {
            return Verdict::Fail(
                Failure::new("ldro-programmed", c.json(), format!("{pair}: accepted, but the register/command carrying LowDataRateOptimize was never written")).with_fp(format!("ldro-not-programmed/{fam}")),
            );
        };
        if p > 1 {
            return Verdict::Fail(Failure::new("ldro-programmed", c.json(), format!("{pair}: LowDataRateOptimize byte programmed as 0x{p:02x} (datasheet: 0x00 or 0x01)")).with_fp(format!("ldro-byte-invalid/{fam}")));
        }
        if let Some(d) = o.decision {
            if (d != 0) != (p != 0) {
                return Verdict::Fail(
                    Failure::new("ldro-programmed", c.json(), format!("{pair}: decision low_data_rate_optimize={d} but the chip was told {p}")).with_fp(format!("ldro-programmed-differs/{fam}")),
                );
            }
        }
    }
    let eff = match o.decision.or(o.programmed) {
        Some(v) => v != 0,
        None => return Verdict::Ok,
    };
    let (nominal, _) = rules(c.sf, c.bw);
    if dont_care(c.sf, c.bw) {
        // agreement only: every implementation must decide like the airtime calculator
        let bb = BaseBandModulationParams::new(SFS[c.sf], BWS[c.bw], CRS[c.cr]).ldro;
        if eff != bb {
            return Verdict::Fail(
                Failure::new("ldro-agreement", c.json(), format!("{pair}: {} decides {} but the airtime calculator decides {}", IMPLS[c.imp], eff, bb)).with_fp(format!("ldro-agreement/{fam}")),
            );
        }
        return Verdict::Ok;
    }
    if eff != nominal {
        let dir = if nominal { "off-but-required" } else { "on-but-not-required" };
        let fp = format!("ldro-rule/{fam}/{dir}");
        if let Some(id) = known(kf, fam, c, &fp) {
            return Verdict::Tolerated(id);
        }
        let t = t_sym_ns(c.sf, c.bw);
        let lw = if lorawan_pair(c.sf, c.bw) { " (a LoRaWAN data rate: gateways use LDRO here)" } else { "" };
        return Verdict::Fail(
            Failure::new(
                "ldro-rule",
                c.json(),
                format!("{pair}{lw}: symbol time {}.{:03} ms, rule (>= 16.38 ms) says {}, {} via {} says {}", t / 1_000_000, (t / 1000) % 1000, nominal, IMPLS[c.imp], PATHS[c.path], eff),
            )
            .with_fp(fp),
        );
    }
    Verdict::Ok
}

fn run_case(c: &Case, kf: &KnownFindings) -> (Option<Obs>, Verdict) {
    match catch(|| observe_case(c)) {
        Ok(o) => {
            let v = judge(c, &o, kf);
            (Some(o), v)
        }
        Err(pm) => (None, Verdict::Fail(panic_failure(c.json(), &pm))),
    }
}

pub fn replay(case: &Value, kf: &KnownFindings) -> Result<(), Failure> {
    if case["kind"] == "history" {
        return hist_stage::replay_hist(case, kf);
    }
    let Some(c) = Case::from_json(case) else {
        return Err(Failure::new("bad-replay", case.clone(), "not a C15 case"));
    };
    match run_case(&c, kf).1 {
        Verdict::Fail(f) => Err(f),
        _ => Ok(()),
    }
}

fn self_check() -> Result<(), String> {
    // the oracle's own table: exactly one don't-care pair (SF8 @ 15.6 kHz), and the LoRaWAN pairs are "on"
    let dc: Vec<(usize, usize)> = (0..8).flat_map(|s| (0..10).map(move |b| (s, b))).filter(|&(s, b)| dont_care(s, b)).collect();
    if dc != vec![(3, 2)] {
        return Err(format!("don't-care pairs {dc:?}, expected [(SF8, 15.6 kHz)]"));
    }
    for (s, b) in [(6, 7), (7, 7), (7, 8)] {
        if !rules(s, b).0 || !lorawan_pair(s, b) {
            return Err("LoRaWAN pairs must be 'on' by the rule".into());
        }
    }
    if rules(7, 9).0 || rules(5, 7).0 {
        return Err("SF12@500k / SF10@125k must be 'off' by the rule".into());
    }
    Ok(())
}

pub fn run(ctx: &mut Ctx) {
    ctx.level = "exploration".into();
    ctx.exhaustive = true;
    ctx.rule = "exhaustive: 8 SF x 10 BW x 8 implementations (BaseBandModulationParams::new; Sx126x as SX1261, SX1262, STM32WL-HP, STM32WL-LP; Sx127x as SX1276, SX1272; Lr1110) x 20 frequency classes (137, 169, 399.999999, 400.0, 433.175, 470.3, 525, 779.5, 868.1, 915, 923.2, 1020 MHz; the 2.4 GHz band of the LR1120/LR1121: 2399.999999, 2400, 2403, 2479, 2500 MHz; and 1 Hz, 1020.000001 MHz, u32::MAX Hz: every frequency a driver's create_modulation_params accepts is judged) x all 4 coding rates x paths (RadioKind create+set_modulation_params; LoRa::prepare_for_rx; LoRa::prepare_for_tx; LorawanRadio::setup_rx; LorawanRadio::tx; the calculator: new only; LR1110 in this stage: RadioKind only) x prior content 0x00/0xFF of the SX127x register holding the bit x the 8 board-option combinations (rx_boost, tx_boost or DC-DC, TCXO) of the SX126x/SX127x drivers and the 32 of the LR1110 (rx_boost, DC-DC, TCXO, high-power PA, RF-switch DIOs) x 4 variants of the remaining request parameters on the LoRa / adapter paths (preamble 8/0/65535/12, explicit/implicit header, CRC on/off, IQ inverted or not, payload lengths 0..255, RxMode Single(20)/Continuous/Single(0)/Single(65535), power 10/22/-9/0 dBm, adapter Single{50 ms}/Continuous/Single{0}/Single{1000}, public/private sync word), board options and variants at CR 4/5. One evaluation = one (implementation, path, SF, BW, CR, frequency, prior) tuple executed against the chip model, refused pairs included. Non-trivial (distinct by construction): the pair is accepted by the implementation and its nominal symbol time is within a factor 2 of the threshold (8.19 ms < 2^SF/BW < 32.76 ms: 12 pairs)".to_string() + hist_stage::RULE;
    ctx.assumptions = vec![
        "threshold 16.38 ms evaluated exactly with the nominal LoRa bandwidths (7.8125, 10.41(6), 15.625, 20.8(3), 31.25, 41.(6), 62.5, 125, 250, 500 kHz)".into(),
        "SF8 @ 15.6 kHz (nominal 16.384 ms, crate constant 15630 Hz gives 16.378 ms) is agreement-only: every implementation must decide like the airtime calculator".into(),
        "chip models: SX126x SetModulationParams = opcode 0x8B byte 4; LR11xx SetModulationParams = opcode 0x020F byte 4; SX1276 RegModemConfig3 (0x26) bit 3; SX1272 RegModemConfig1 (0x1D) bit 0".into(),
        "LR1110 is exercised at the RadioKind level only (no LR11xx chip model for LoRa::new)".into(),
        "a pair the driver refuses (Err) is outside the quantifier ('every chip variant that supports the pair'); which pairs a driver ought to accept is not judged here".into(),
        "stateful stage: the statement's 'program the chip accordingly' is read as: whenever a request for (SF, BW) has been carried out, the LowDataRateOptimize setting the chip holds for that operation is the rule's decision for (SF, BW), whatever the same driver instance did before; a judged operation that returns an error before anything goes on the air is not judged; errors of prefix operations are tolerated".into(),
        "stateful stage chip doubles: SX126x SetSleep bit 2 = 0 and LR11xx SetSleep bit 0 = 0 (no retention), NRESET and LR11xx Reboot return the chip to its power-on state on the next access; SX127x keeps its registers in sleep mode and restores the reset values on NRESET; the seed only selects the random histories, the enumerated ones are fixed".into(),
    ];
    if let Err(e) = self_check() {
        ctx.stats.fail(Failure::new("harness-bug", json!({"self_check": e}), format!("C15 oracle self-check failed: {e}")).with_fp("harness-bug/c15-selfcheck"));
        return;
    }
    let kf = ctx.kf.clone();
    ctx.parallel(|ti, n, st| {
        let mut idx = 0usize;
        for imp in 0..IMPLS.len() {
            let fam = family(IMPLS[imp]);
            for path in 0..PATHS.len() {
                if (fam == "baseband" || fam == "lr1110") && path != 0 {
                    continue;
                }
                for sf in 0..8 {
                    for bw in 0..10 {
                        for cr in 0..4 {
                            for &freq in FREQS.iter() {
                                if fam == "baseband" && freq != FREQS[0] {
                                    continue;
                                }
                                for prior in [0x00u8, 0xFF] {
                                    if fam != "sx127x" && prior != 0 {
                                        continue;
                                    }
                                  // board options (8 combinations; LR1110: 32) on the chip families that have them, and the
                                  // variants of the remaining request parameters through LoRa / the adapter; CR 4/5 only
                                  const B8: [(u8, u8); 11] = [(0, 0), (1, 0), (2, 0), (3, 0), (4, 0), (5, 0), (6, 0), (7, 0), (0, 1), (0, 2), (0, 3)];
                                  let lr_boards: Vec<(u8, u8)> = (0..32u8).map(|b| (b, 0)).collect();
                                  let combos: &[(u8, u8)] = if cr != 0 || fam == "baseband" {
                                      &[(0, 0)]
                                  } else if fam == "lr1110" {
                                      &lr_boards
                                  } else if path == 0 {
                                      &B8[..8]
                                  } else {
                                      &B8
                                  };
                                  for &(board, variant) in combos {
                                    idx += 1;
                                    if idx % n != ti {
                                        continue;
                                    }
                                    let c = Case { imp, path, sf, bw, cr, freq, prior, board, variant };
                                    st.eval();
                                    st.class(&format!("impl:{}", IMPLS[imp]));
                                    st.class(&format!("path:{}", PATHS[path]));
                                    let (obs, v) = run_case(&c, &kf);
                                    let accepted = obs.as_ref().map(|o| o.rejected.is_none()).unwrap_or(false);
                                    if accepted {
                                        st.class("accepted");
                                        if boundary_pair(sf, bw) {
                                            st.nt_distinct();
                                            st.class("accepted:boundary-pair");
                                        }
                                        if lorawan_pair(sf, bw) {
                                            st.class("accepted:lorawan-ldro-pair");
                                        }
                                        if dont_care(sf, bw) {
                                            st.class("accepted:agreement-only-pair");
                                        }
                                    } else {
                                        st.class("refused-by-driver");
                                    }
                                    match v {
                                        Verdict::Ok => {}
                                        Verdict::Tolerated(id) => st.excluded(id),
                                        Verdict::Fail(f) => st.fail(f),
                                    }
                                    if let Some(o) = obs {
                                        if accepted && boundary_pair(sf, bw) && st.want_sample() && (idx * 7) % 13 == 0 {
                                            let mut j = c.json();
                                            j["decision"] = json!(o.decision);
                                            j["programmed"] = json!(o.programmed);
                                            j["rule_nominal"] = json!(rules(sf, bw).0);
                                            st.sample(j);
                                        }
                                    }
                                  }
                                }
                            }
                        }
                    }
                }
            }
        }
    });
    hist_stage::stage(ctx);
}
