#!/bin/bash
# tools/seedtest.sh <Cxx> <worktree-with-change-applied> [tier]
# Runs the property's check against a scratch copy of the repository that carries a seeded change.
set -u
prop="$1"; wt="$2"; tier="${3:-quick}"
cd /verif
out=$(VERIF_REPO="$wt" ./check "$prop" --tier "$tier" 2>&1)
rc=$?
echo "$out" | grep -E "VIOLATION|fingerprint|$prop:|BUILD-FAILED|WATCHDOG" | cut -c1-300 | head -8
echo "rc=$rc"
