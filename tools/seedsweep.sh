#!/bin/bash
# tools/seedsweep.sh <stream> <streams> [filter-regex]
# Re-runs the quick tier of the owning check against every seeded change (records under seeded/), so that
# the table in DESIGN.md 9.6 reflects the harness as it is now and not as it was when a record was made.
# One persistent scratch worktree per stream (under /tmp/seedsweep, removed at the end): the seeded patch is
# applied, the check runs with VERIF_REPO pointing at the worktree, the patch is reverted; builds are
# incremental. Output: /tmp/seedsweep/<stream>.tsv  (record, exit code, fingerprints).  Nothing here
# touches /repo's working tree.
set -u
j="$1"; n="$2"; filt="${3:-.}"
root=/tmp/seedsweep; mkdir -p "$root"
wt="$root/wt$j"
if [ ! -d "$wt/.git" ] && [ ! -f "$wt/.git" ]; then
  git -C /repo worktree add --detach "$wt" HEAD >/dev/null 2>&1 || { echo "cannot create $wt"; exit 2; }
fi
out="$root/$j.tsv"; : > "$out"
i=0
for d in $(ls -d /verif/seeded/C* | sort | grep -E "$filt"); do
  i=$((i+1)); [ $((i % n)) -eq "$j" ] || continue
  rec=$(basename "$d"); prop=${rec:0:3}
  git -C "$wt" checkout -q -- . ; git -C "$wt" clean -fdq -e '.verif-*' >/dev/null 2>&1
  if ! git -C "$wt" apply "$d/patch.diff" 2>/dev/null && ! git -C "$wt" apply -3 "$d/patch.diff" 2>/dev/null; then
    printf "%s\tAPPLY-FAILED\t\n" "$rec" >> "$out"; continue
  fi
  rm -rf "$wt/.verif-out"
  res=$(cd /verif && VERIF_REPO="$wt" ./check "$prop" --tier quick 2>&1); rc=$?
  fp=$(echo "$res" | grep -oE "fingerprint=[^ ]+" | sort -u | head -3 | tr '\n' ' ')
  printf "%s\t%s\t%s\n" "$rec" "$rc" "$fp" >> "$out"
done
git -C "$wt" checkout -q -- . 2>/dev/null
git -C /repo worktree remove --force "$wt" 2>/dev/null; rm -rf "$wt"; git -C /repo worktree prune
echo "stream $j done" >> "$out"
