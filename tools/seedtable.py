#!/usr/bin/env python3
"""Regenerates the seeded-change table of DESIGN.md section 9.6 from seeded/*/meta.json.

Usage: python3 tools/seedtable.py   (from /verif)
The table lives between the markers <!-- seeded-table:begin --> and <!-- seeded-table:end -->.
"""
import glob
import json
import os
import re

ROOT = os.path.dirname(os.path.dirname(os.path.abspath(__file__)))


def cell(s, n=230):
    s = re.sub(r"\s+", " ", str(s)).replace("|", "/")
    return s[:n]


rows = []
for d in sorted(glob.glob(os.path.join(ROOT, "seeded", "*"))):
    mp = os.path.join(d, "meta.json")
    if not os.path.exists(mp):
        continue
    m = json.load(open(mp))
    c = m.get("confirmed_by_lead", {})
    q, t = c.get("check_quick_exit"), c.get("check_thorough_exit")
    where = "quick" if q == 1 else ("thorough only" if t == 1 else "MISSED")
    if "strengthening" in m and q == 1:
        where = "quick (after strengthening)"
    rows.append("| `%s` | %s | %s | %s | %s | `%s` |" % (os.path.basename(d), m.get("property", "?"), cell(m.get("summary", "")), cell(m.get("needs_to_manifest", "")), where, cell(c.get("check_fingerprint", ""), 80)))

table = "| seeded change | property | what it does | what it needs | caught by | fingerprint |\n|---|---|---|---|---|---|\n" + "\n".join(rows) + "\n"
p = os.path.join(ROOT, "DESIGN.md")
s = open(p).read()
b, e = "<!-- seeded-table:begin -->\n", "<!-- seeded-table:end -->\n"
if b in s:
    i, j = s.index(b) + len(b), s.index(e)
    s = s[:i] + table + s[j:]
else:
    # first run: replace the existing table
    i = s.index("| seeded change | property |")
    j = s.index("\n\n", i) + 1
    s = s[:i] + b + table + e + s[j:]
open(p, "w").write(s)
print(len(rows), "rows")
