#!/usr/bin/env python3
"""Mechanical mutation sweep: the sensitivity of the checks against one-token changes of the library.

  tools/mutsweep.py list  [--seed N]                 -> prints the sampled mutant list (id, file, line, operator)
  tools/mutsweep.py run <stream> <streams> [--seed N] [--limit K] [--files REGEX]
        runs stream <stream> of <streams> over the sampled list; one persistent scratch worktree per
        stream under /tmp/mut (outside /repo and /verif, removed at the end); appends to
        /tmp/mut/results-<stream>.tsv:   id  file:line  operator  verdict  by  detail
  tools/mutsweep.py collect                          -> merges /tmp/mut/results-*.tsv into mutation/results.tsv

Verdicts:  nocompile | caught (by = first check with exit 1) | suite-only (checks silent, the repository's own
tests fail) | SURVIVOR (checks silent and suite passes: equivalent mutant, outside every listed property, or a gap —
triaged by hand in mutation/triage.md) | inconclusive (a check exited 2).

Only for measuring the machinery; nothing here is a registered check and nothing touches /repo's working tree.
"""
import hashlib
import json
import os
import re
import subprocess
import sys

REPO = "/repo"
VERIF = os.path.dirname(os.path.dirname(os.path.abspath(__file__)))
ROOT = "/tmp/mut"

MAC = ["C01", "C02", "C03", "C04", "C05", "C06", "C07", "C08", "C09", "C10", "C11", "C12", "C16", "C19", "C20"]
PHY = ["C15", "C17", "C18", "C13", "C14"]


def anchors():
    m = {}
    for line in open(os.path.join(VERIF, "properties.jsonl")):
        p = json.loads(line)
        for f in p["anchors"]["files"]:
            if os.path.isfile(os.path.join(REPO, f)):
                m.setdefault(f, []).append(p["id"])
    return m


def order_for(f, props):
    """anchored properties first, then every other check of the packages the file can influence"""
    if f.startswith("lora-phy/"):
        rest = PHY
    elif f.startswith("lora-modulation/"):
        rest = ["C16", "C15", "C17", "C10", "C05", "C13", "C18", "C14"]
    elif f.startswith("lorawan-encoding/") or f.startswith("lorawan-macros/"):
        rest = MAC
    else:
        rest = [p for p in MAC if p not in ("C01", "C02", "C03", "C16", "C19")] + ["C18"]
    out = [p for p in props]
    out += [p for p in rest if p not in out]
    return out


OPS = [
    ("rel", r" <= ", " < "), ("rel", r" >= ", " > "), ("rel", r"(?<=[\w\)\]]) < (?=[\w\(\-])", " <= "),
    ("rel", r"(?<=[\w\)\]]) > (?=[\w\(\-])", " >= "), ("rel", r" == ", " != "), ("rel", r" != ", " == "),
    ("arith", r"(?<=[\w\)\]]) \+ (?=[\w\(])", " - "), ("arith", r"(?<=[\w\)\]]) - (?=[\w\(])", " + "),
    ("arith", r"(?<=[\w\)\]]) \* (?=[\w\(])", " / "), ("arith", r" \+= ", " -= "), ("arith", r" -= ", " += "),
    ("logic", r" && ", " || "), ("logic", r" \|\| ", " && "),
    ("bit", r"(?<=[\w\)\]]) & (?=[\w\(!])", " | "), ("bit", r"(?<=[\w\)\]]) \| (?=[\w\(!])", " & "),
    ("bit", r" << ", " >> "), ("bit", r" >> ", " << "), ("bit", r" \|= ", " &= "), ("bit", r" &= ", " |= "),
    ("range", r"\.\.=", ".."), ("range", r"(?<=[\w\)])\.\.(?=[\w\(])", "..="),
    ("minmax", r"\bmin\(", "max("), ("minmax", r"\bmax\(", "min("),
    ("bool", r"\btrue\b", "false"), ("bool", r"\bfalse\b", "true"),
    ("neg", r"(?<=[\(\s])!(?=[a-z_\(])", ""),
    ("sat", r"saturating_sub", "wrapping_sub"), ("sat", r"saturating_add", "wrapping_add"),
    ("sat", r"wrapping_add", "saturating_add"), ("sat", r"wrapping_sub", "saturating_sub"),
    ("sat", r"checked_add", "wrapping_add_opt"),
]
NUM = re.compile(r"(?<![\w\.])(0x[0-9a-fA-F_]+|\d[\d_]*)(?![\w\.]*\")(?=[^\w\.]|$)")
SKIP = re.compile(r"^\s*(//|#\[|#!\[|use |pub use |mod |pub mod |extern |debug!|trace!|info!|warn!|error!|defmt|assert|debug_assert|unreachable|panic!|todo!|const _|///|\*|/\*)")


def mutants_of(rel):
    path = os.path.join(REPO, rel)
    lines = open(path).read().split("\n")
    out = []
    in_test = False
    depth_doc = False
    for i, line in enumerate(lines):
        if re.match(r"\s*#\[cfg\(test\)\]", line) and i + 1 < len(lines) and "mod " in lines[i + 1] and "{" in lines[i + 1]:
            in_test = True  # inline test modules are at the end of every file in this repository
        if in_test:
            break
        code = line.split("//")[0]
        if not code.strip() or SKIP.match(line):
            continue
        if any(k in code for k in ("debug!(", "trace!(", "warn!(", "info!(", "error!(", "defmt::", "format_args!", "write!(", "fmt::")):
            continue
        for name, pat, rep in OPS:
            if rep == "wrapping_add_opt":
                continue
            for mo in re.finditer(pat, code):
                new = code[: mo.start()] + rep + code[mo.end():] + line[len(code):]
                out.append((rel, i + 1, name, line, new))
        for mo in NUM.finditer(code):
            tok = mo.group(1)
            try:
                v = int(tok.replace("_", ""), 16 if tok.startswith("0x") else 10)
            except ValueError:
                continue
            # skip literals inside type positions such as [u8; 16] array lengths? they are legitimate targets too
            for d, nm in ((1, "const+1"), (-1, "const-1")):
                nv = v + d
                if nv < 0:
                    continue
                nt = hex(nv) if tok.startswith("0x") else str(nv)
                new = code[: mo.start(1)] + nt + code[mo.end(1):] + line[len(code):]
                out.append((rel, i + 1, nm, line, new))
        # statement deletion: plain assignments (not `let`) and bare call statements
        if re.match(r"\s*([\w\.]+(\[[^\]]+\])? (=|\|=|&=|\+=|-=) [^;]*;|[\w\.:]+\([^;]*\)(\.await)?\??;)\s*$", code) and not re.match(r"\s*(let|return|break|continue)\b", code):
            out.append((rel, i + 1, "delete", line, re.match(r"\s*", line).group(0) + "/* deleted */"))
        # condition negation
        mo = re.match(r"(\s*(?:\} else )?if )((?!let )[^{]+?)( \{\s*)$", code)
        if mo:
            out.append((rel, i + 1, "ifneg", line, mo.group(1) + "!(" + mo.group(2) + ")" + mo.group(3)))
    return out


def sample(seed, files_re=None, per_file_cap=None):
    am = anchors()
    allm = []
    for rel in sorted(am):
        if rel.startswith("lorawan-macros/"):
            continue
        if rel.endswith("lr1110/mod.rs"):
            continue  # only create_modulation_params matters for C15; mutated by hand-picked operators below
        if files_re and not re.search(files_re, rel):
            continue
        ms = mutants_of(rel)
        for m in ms:
            h = hashlib.sha256(("%d|%s|%d|%s|%s" % (seed, m[0], m[1], m[2], m[4])).encode()).hexdigest()
            if m[2].startswith("const") and int(h[-2:], 16) >= 64:
                continue  # literal +-1 mutants outnumber everything else: keep a quarter of them
            allm.append((h, m))
    allm.sort()
    return [(h[:10], m) for h, m in allm]


def sh(cmd, cwd=None, timeout=3600, env=None):
    e = dict(os.environ)
    if env:
        e.update(env)
    try:
        r = subprocess.run(cmd, shell=True, cwd=cwd, env=e, stdout=subprocess.PIPE, stderr=subprocess.STDOUT, timeout=timeout)
        return r.returncode, r.stdout.decode(errors="replace")
    except subprocess.TimeoutExpired:
        return 124, "timeout"


def run(stream, streams, seed, limit, files_re, reverse=False):
    os.makedirs(ROOT, exist_ok=True)
    wt = "%s/wt%s%d" % (ROOT, "r" if reverse else "", stream)
    if not os.path.exists(wt):
        sh("git -C %s worktree add --detach %s HEAD" % (REPO, wt))
    am = anchors()
    done = set()
    resf = "%s/results-%s%d.tsv" % (ROOT, "r" if reverse else "", stream)
    for f in os.listdir(ROOT):
        if f.startswith("results-"):
            done |= {l.split("\t")[0] for l in open(os.path.join(ROOT, f))}
    ms = sample(seed, files_re)
    if limit:
        ms = ms[:limit]
    ms = list(enumerate(ms))
    if reverse:
        ms.reverse()
    for k, (mid, (rel, ln, op, old, new)) in ms:
        if k % streams != stream or mid in done:
            continue
        sh("git checkout -q -- .", cwd=wt)
        p = os.path.join(wt, rel)
        lines = open(p).read().split("\n")
        if lines[ln - 1] != old:
            continue
        lines[ln - 1] = new
        open(p, "w").write("\n".join(lines))
        verdict, by, detail = None, "", ""
        for prop in order_for(rel, am.get(rel, [])):
            sh("rm -rf %s/.verif-out" % wt)
            rc, out = sh("./check %s --tier quick" % prop, cwd=VERIF, env={"VERIF_REPO": wt}, timeout=2400)
            if "BUILD-FAILED" in out:
                verdict = "nocompile"
                break
            if rc == 1:
                fp = re.findall(r"fingerprint=(\S+)", out)
                verdict, by, detail = "caught", prop, (fp[0] if fp else "")
                break
            if rc != 0:
                verdict, by, detail = "inconclusive", prop, out.strip().split("\n")[-1][:120]
                break
        if verdict is None:
            rc, out = sh("cargo +1.97 test --workspace --offline --no-fail-fast 2>&1 | grep -E '^test result|^error|FAILED|panicked' | head -20", cwd=wt, timeout=3000)
            failed = sum(int(x) for x in re.findall(r"(\d+) failed", out))
            if "error" in out and "test result" not in out:
                verdict = "nocompile"
            elif failed > 0:
                verdict, detail = "suite-only", "%d tests fail" % failed
            else:
                verdict = "SURVIVOR"
        with open(resf, "a") as f:
            f.write("\t".join([mid, "%s:%d" % (rel, ln), op, verdict, by, detail, old.strip()[:110], new.strip()[:110]]) + "\n")
    sh("git checkout -q -- .", cwd=wt)
    sh("git -C %s worktree remove --force %s" % (REPO, wt))
    sh("rm -rf %s; git -C %s worktree prune" % (wt, REPO))


def main():
    a = sys.argv[1:]
    seed = 1
    limit = None
    files_re = None
    if "--seed" in a:
        seed = int(a[a.index("--seed") + 1])
    if "--limit" in a:
        limit = int(a[a.index("--limit") + 1])
    if "--files" in a:
        files_re = a[a.index("--files") + 1]
    if a[0] == "list":
        ms = sample(seed, files_re)
        print(len(ms), "mutants")
        import collections
        c = collections.Counter(m[0] for _, m in ms)
        for f, n in sorted(c.items()):
            print("%5d %s" % (n, f))
        c = collections.Counter(m[2] for _, m in ms)
        print(dict(c))
    elif a[0] == "run":
        run(int(a[1]), int(a[2]), seed, limit, files_re, "--reverse" in a)
    elif a[0] == "collect":
        os.makedirs(os.path.join(VERIF, "mutation"), exist_ok=True)
        rows = []
        for f in sorted(os.listdir(ROOT)):
            if f.startswith("results-"):
                rows += [l for l in open(os.path.join(ROOT, f)) if l.strip()]
        rows = sorted(set(rows), key=lambda l: l.split("\t")[1])
        open(os.path.join(VERIF, "mutation", "results.tsv"), "w").write("".join(rows))
        import collections
        c = collections.Counter(l.split("\t")[3] for l in rows)
        print(len(rows), dict(c))


if __name__ == "__main__":
    main()
