#!/bin/bash
# tools/seedconfirm.sh <Cxx> <worktree> [name]
# Confirms a seeded change delivered by a sub-agent in <worktree>/SEED and records it under /verif/seeded/<name>/.
#  1. existing suite passes with the change (demo moved away)   2. demo fails with the change
#  3. demo passes without the change                             4. what the property's check says (quick, then thorough)
set -u
prop="$1"; wt="$2"; name="${3:-$prop-1}"
seed="$wt/SEED"
loc=$(grep -oE "[A-Za-z0-9_./-]+\.rs" "$seed/demo_location.txt" | grep -v "^SEED" | grep "/" | head -1)
loc="${loc#$wt/}"
democmd=$(python3 -c "import json;print(json.load(open('$seed/meta.json'))['demo_command'])")
cd "$wt" || exit 2
git checkout -q -- . 2>/dev/null; git clean -fdq -e SEED -e .verif-crates -e .verif-target -e .verif-out -e target 2>/dev/null
git apply "$seed/patch.diff" || { echo "patch does not apply"; exit 2; }
echo "== 1. suite with change"
suite=$(cargo +1.97 test --workspace --offline --no-fail-fast 2>&1 | grep -E "^test result" | awk '{p+=$4; f+=$6} END {print p" passed "f" failed"}')
echo "$suite"
mkdir -p "$(dirname "$loc")"; cp "$seed/demo.rs" "$loc"
echo "== 2. demo with change ($democmd)"
( eval "$democmd" ) >/tmp/seed_demo_with.log 2>&1; with=$?
echo "exit $with"
git apply -R "$seed/patch.diff"
echo "== 3. demo without change"
( eval "$democmd" ) >/tmp/seed_demo_without.log 2>&1; without=$?
echo "exit $without"
git apply "$seed/patch.diff"; rm -f "$loc"
echo "== 4. check $prop (quick)"
q=$(cd /verif && VERIF_REPO="$wt" ./check "$prop" --tier quick 2>&1); qrc=$?
echo "$q" | grep -E "VIOLATION|fingerprint|$prop:|BUILD-FAILED" | cut -c1-260 | head -6; echo "rc=$qrc"
trc="-"
if [ $qrc -eq 0 ] && [ -z "${SEEDCONFIRM_NO_THOROUGH:-}" ]; then
  echo "== 4b. check $prop (thorough)"
  t=$(cd /verif && VERIF_REPO="$wt" ./check "$prop" --tier thorough 2>&1); trc=$?
  echo "$t" | grep -E "VIOLATION|fingerprint|$prop:|BUILD-FAILED" | cut -c1-260 | head -6; echo "rc=$trc"
fi
d=/verif/seeded/$name; mkdir -p "$d"
cp "$seed/patch.diff" "$d/patch.diff"; cp "$seed/demo.rs" "$d/demo.rs"; cp "$seed/demo_location.txt" "$d/" 2>/dev/null
fp=$(echo "$q" | grep -m1 "fingerprint=" | sed 's/.*fingerprint=//')
python3 - "$seed/meta.json" "$d/meta.json" "$suite" "$with" "$without" "$qrc" "$trc" "$fp" "$prop" <<'PY'
import json,sys
src,dst,suite,w,wo,q,t,fp,prop=sys.argv[1:]
m=json.load(open(src))
try:
    old=json.load(open(dst))
    for k in ("strengthening","first_contact"):
        if k in old:
            m[k]=old[k]   # notes survive a re-confirmation
except Exception:
    pass
m["confirmed_by_lead"]={"suite_with_change":suite,"demo_exit_with_change":int(w),"demo_exit_without_change":int(wo),
  "check_quick_exit":int(q),"check_thorough_exit":(None if t=="-" else int(t)),"check_fingerprint":fp,
  "ran":[f"cargo +1.97 test --workspace --offline --no-fail-fast (change applied, demo absent)", m.get("demo_command",""), f"VERIF_REPO=<worktree> ./check {prop} --tier quick|thorough"]}
json.dump(m,open(dst,"w"),indent=1)
PY
echo "recorded in $d"
